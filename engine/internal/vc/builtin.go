package vc

import (
	"fmt"
	"go/types"

	"govc/internal/spec"

	"golang.org/x/tools/go/ssa"
)

type rangeState struct {
	mapRef  Term
	mapType *types.Map
	seen    Term // (Array K Bool): keys already visited
	str     bool
}

func isModelled(fn *ssa.Function) bool {
	return fn.Package() != nil && fn.Package().Pkg.Path() == "sort" && fn.Name() == "Slice"
}

// modelCall: built-in semantic models of library functions that cannot be
// given a first-order contract (sort.Slice is generic over the element type
// and takes a comparison closure). Everything else gets a trusted contract in
// /verif/contracts/external so that it is listed mechanically.
func (g *Gen) modelCall(v ssa.Value, fn *ssa.Function, args []ssa.Value, st *State) (*State, bool) {
	if isModelled(fn) {
		return g.sortSlice(args, st), true
	}
	return nil, false
}

// sortSlice models sort.Slice(x, less) [assumed stdlib contract]: the
// elements of x are permuted in place (a bijection src/dst between old and new
// positions), the result is ordered w.r.t. less, nothing else changes. The
// closure must have a contract of the form `ensures def: r == E(i, j)`.
func (g *Gen) sortSlice(args []ssa.Value, st *State) *State {
	mi, ok := args[0].(*ssa.MakeInterface)
	if !ok {
		g.fail("sort.Slice: argument is not a direct slice value")
	}
	sl, ok := types.Unalias(mi.X.Type()).Underlying().(*types.Slice)
	if !ok {
		g.fail("sort.Slice on non-slice")
	}
	cl := g.clos[args[1]]
	if cl == nil {
		g.fail("sort.Slice: comparison is not a closure literal")
	}
	lessFn := cl.Fn.(*ssa.Function)
	con := g.prog.ContractFor(lessFn)
	if con == nil || len(con.Params) != 2 {
		g.fail("sort.Slice: closure %s needs a contract `ensures def: r == E`", displayName(lessFn))
	}
	var defE spec.Expr
	for _, e := range con.Ensures {
		if b, ok := e.Expr.(*spec.Binary); ok && e.Label == "def" && b.Op == "==" {
			if id, ok := b.L.(*spec.Ident); ok && len(con.Results) == 1 && id.Name == con.Results[0] {
				defE = b.R
			}
		}
	}
	if defE == nil {
		g.fail("sort.Slice: contract of %s lacks `ensures def: %s == E`", displayName(lessFn), "r")
	}
	g.assumed["sort::Slice (built-in model: permutation + ordered w.r.t. less)"] = true
	s := g.val(mi.X)
	k := g.u.ElemComp(sl.Elem())
	es := g.u.SortOf(sl.Elem())
	mem := g.read(st, k)
	oldrow := fmt.Sprintf("(select %s (s.base %s))", mem, s)
	row := g.fresh("sort.row", "(Array Int "+es+")")
	g.tmpN++
	src, dst := fmt.Sprintf("sort.src!%d", g.tmpN), fmt.Sprintf("sort.dst!%d", g.tmpN)
	g.decls = append(g.decls, fmt.Sprintf("(declare-fun %s (Int) Int)", src), fmt.Sprintf("(declare-fun %s (Int) Int)", dst))
	lo := fmt.Sprintf("(s.off %s)", s)
	hi := fmt.Sprintf("(+ (s.off %s) (s.len %s))", s, s)
	r := g.reach[g.curBlock]
	// frame (absolute positions outside the slice window are untouched)
	g.assert(fmt.Sprintf("(=> %s (forall ((k!s Int)) (! (=> (or (< k!s %s) (>= k!s %s)) (= (select %s k!s) (select %s k!s))) :pattern ((select %s k!s)))))",
		r, lo, hi, row, oldrow, row))
	// permutation: src/dst are mutually inverse bijections on relative indices
	ln := fmt.Sprintf("(s.len %s)", s)
	g.assert(fmt.Sprintf("(=> %s (forall ((i!s Int)) (! (=> (and (<= 0 i!s) (< i!s %s)) (and (<= 0 (%s i!s)) (< (%s i!s) %s) (= (select %s (loc %s i!s)) (select %s (loc %s (%s i!s)))) (= (%s (%s i!s)) i!s))) :pattern ((select %s (loc %s i!s))))))",
		r, ln, src, src, ln, row, lo, oldrow, lo, src, dst, src, row, lo))
	g.assert(fmt.Sprintf("(=> %s (forall ((i!s Int)) (! (=> (and (<= 0 i!s) (< i!s %s)) (and (<= 0 (%s i!s)) (< (%s i!s) %s) (= (select %s (loc %s i!s)) (select %s (loc %s (%s i!s)))) (= (%s (%s i!s)) i!s))) :pattern ((select %s (loc %s i!s))))))",
		r, ln, dst, dst, ln, oldrow, lo, row, lo, dst, src, dst, oldrow, lo))
	// bridge: every absolute read inside the window is also a relative read
	for _, rw := range []string{row, oldrow} {
		g.assert(fmt.Sprintf("(=> %s (forall ((k!s Int)) (! (=> (and (<= %s k!s) (< k!s %s)) (= (select %s k!s) (select %s (loc %s (- k!s %s))))) :pattern ((select %s k!s)))))",
			r, lo, hi, rw, rw, lo, lo, rw))
	}
	nm := g.fresh("sort.mem", g.u.compSort[k])
	g.assert(fmt.Sprintf("(= %s (ite (= (s.base %s) 0) %s (store %s (s.base %s) %s)))", nm, s, mem, mem, s, row))
	post := g.update(st, k, nm)
	// ordered: forall i < j: !less(j, i), evaluated in the post state
	env := &Env{g: g, vars: map[string]TV{}, cur: post, old: post, callee: true, pkg: con.Pkg, src: con.Src}
	env.vars[con.Params[0]] = TV{"j!s", "Int", types.Typ[types.Int]}
	env.vars[con.Params[1]] = TV{"i!s", "Int", types.Typ[types.Int]}
	for i, fv := range lessFn.FreeVars {
		et := deref(fv.Type())
		if pl := g.places[cl.Bindings[i]]; pl != nil {
			env.vars[fv.Name()] = TV{g.load(post, pl), g.u.SortOf(et), et}
			continue
		}
		pl := g.placeOfRef(g.val(cl.Bindings[i]), et)
		if pl.Struct || isAggregate(et) {
			env.vars[fv.Name()] = TV{g.val(cl.Bindings[i]), atRefSort, et}
		} else {
			env.vars[fv.Name()] = TV{g.load(post, pl), g.u.SortOf(et), et}
		}
	}
	lessJI := env.materialize(env.eval(defE))
	if lessJI.Sort != "Bool" {
		g.fail("sort.Slice: def of %s is not boolean", displayName(lessFn))
	}
	g.assert(fmt.Sprintf("(=> %s (forall ((i!s Int) (j!s Int)) (! (=> (and (<= 0 i!s) (< i!s j!s) (< j!s (s.len %s))) (not %s)) :pattern ((select %s (loc %s i!s)) (select %s (loc %s j!s))))))",
		r, s, lessJI.T, row, lo, row, lo))
	return post
}

func (g *Gen) builtin(v ssa.Value, b *ssa.Builtin, args []ssa.Value, st *State) *State {
	switch b.Name() {
	case "len", "cap":
		a := args[0]
		var t Term
		switch x := types.Unalias(a.Type()).Underlying().(type) {
		case *types.Slice:
			t = fmt.Sprintf("(s.%s %s)", b.Name(), g.val(a))
		case *types.Basic:
			t = fmt.Sprintf("(slen %s)", g.val(a))
		case *types.Array:
			t = fmt.Sprint(x.Len())
		case *types.Pointer:
			t = fmt.Sprint(types.Unalias(x.Elem()).Underlying().(*types.Array).Len())
		case *types.Map:
			// len(m) = cardinality of the key set (built-in model, see MapCard)
			md, _ := g.u.MapComps(x)
			r := g.fresh("maplen", "Int")
			g.assert(fmt.Sprintf("(= %s %s)", r, g.u.MapCard(g.u.SortOf(x.Key()), fmt.Sprintf("(select %s %s)", g.read(st, md), g.val(a)))))
			g.assert(fmt.Sprintf("(<= 0 %s)", r))
			t = r
		case *types.Chan:
			r := g.fresh("chanlen", "Int")
			g.assert(fmt.Sprintf("(<= 0 %s)", r))
			t = r
		default:
			g.fail("len of %s", a.Type())
		}
		g.define(v, t)
		return st
	case "append":
		return g.appendBuiltin(v, args, st)
	case "copy":
		return g.copyBuiltin(v, args, st)
	case "delete":
		mt := types.Unalias(args[0].Type()).Underlying().(*types.Map)
		md, _ := g.u.MapComps(mt)
		m, k := g.val(args[0]), g.val(args[1])
		cur := g.read(st, md)
		return g.update(st, md, fmt.Sprintf("(store %s %s (store (select %s %s) %s false))", cur, m, cur, m, k))
	case "min", "max":
		op := "<="
		if b.Name() == "max" {
			op = ">="
		}
		r := g.val(args[0])
		for _, a := range args[1:] {
			r = fmt.Sprintf("(ite (%s %s %s) %s %s)", op, r, g.val(a), r, g.val(a))
		}
		g.define(v, r)
		return st
	case "print", "println":
		return st
	case "close":
		return st
	case "recover":
		if v != nil {
			g.havocVal(v, st)
		}
		return st
	case "ssa:wrapnilchk":
		g.vals[v] = g.val(args[0])
		return st
	}
	g.fail("NEEDS-MODEL builtin %s", b.Name())
	return st
}

// appendBuiltin models append(s, t...) with capacity tracking.
func (g *Gen) appendBuiltin(v ssa.Value, args []ssa.Value, st *State) *State {
	sl := types.Unalias(v.Type()).Underlying().(*types.Slice)
	et := sl.Elem()
	es := g.u.SortOf(et)
	k := g.u.ElemComp(et)
	s := g.val(args[0])
	mem := g.read(st, k)
	var tlen, trow, toff Term
	if bt, ok := types.Unalias(args[1].Type()).Underlying().(*types.Basic); ok && bt.Info()&types.IsString != 0 {
		str := g.val(args[1])
		tlen, trow, toff = fmt.Sprintf("(slen %s)", str), fmt.Sprintf("(str.bytes %s)", str), "0"
	} else {
		t := g.val(args[1])
		tlen = fmt.Sprintf("(s.len %s)", t)
		trow = fmt.Sprintf("(select %s (s.base %s))", mem, t)
		toff = fmt.Sprintf("(s.off %s)", t)
	}
	newlen := g.fresh("app.len", "Int")
	g.assert(fmt.Sprintf("(= %s (+ (s.len %s) %s))", newlen, s, tlen))
	inplace := g.fresh("app.inplace", "Bool")
	g.assert(fmt.Sprintf("(= %s (and (<= %s (s.cap %s)) (not (= (s.base %s) 0))))", inplace, newlen, s, s))
	fr, st2 := g.allocRef(st)
	ncap := g.fresh("app.cap", "Int")
	g.assert(fmt.Sprintf("(>= %s %s)", ncap, newlen))
	res := g.fresh("app.res", "Slice")
	g.assert(fmt.Sprintf("(= %s (ite %s (mk.slice (s.base %s) (s.off %s) %s (s.cap %s)) (ite (= %s 0) %s (mk.slice %s 0 %s %s))))",
		res, inplace, s, s, newlen, s, newlen, s, fr, newlen, ncap))
	// special case: appending nothing to a nil/empty slice returns it unchanged
	oldrow := fmt.Sprintf("(select %s (s.base %s))", mem, s)
	row := g.fresh("app.row", "(Array Int "+es+")")
	roff := fmt.Sprintf("(s.off %s)", res)
	g.assert(fmt.Sprintf("(forall ((k!a Int)) (! (and (=> (and (<= %[1]s k!a) (< k!a (+ %[1]s (s.len %[2]s)))) (= (select %[3]s k!a) (select %[4]s (loc (s.off %[2]s) (- k!a %[1]s))))) (=> (and (<= (+ %[1]s (s.len %[2]s)) k!a) (< k!a (+ %[1]s %[5]s))) (= (select %[3]s k!a) (select %[6]s (loc %[7]s (- k!a %[1]s (s.len %[2]s)))))) (=> (and %[8]s (or (< k!a %[1]s) (>= k!a (+ %[1]s %[5]s)))) (= (select %[3]s k!a) (select %[4]s k!a)))) :pattern ((select %[3]s k!a))))",
		roff, s, row, oldrow, newlen, trow, toff, inplace))
	nm := g.fresh("app.mem", g.u.compSort[k])
	g.assert(fmt.Sprintf("(= %s (ite (= %s 0) %s (store %s (s.base %s) %s)))", nm, newlen, mem, mem, res, row))
	if es == "Int" && typeKey(et) == "uint8" {
		// byte strings: the result holds the concatenation (a consequence of
		// the element-wise facts above by extensionality, stated so that
		// contracts over whole byte strings need no pointwise reasoning)
		g.assert(fmt.Sprintf("(= (mk.bytes %[1]s (win (select %[2]s (s.base %[3]s)) (s.off %[3]s) %[1]s)) (b.cat (mk.bytes (s.len %[4]s) (win %[5]s (s.off %[4]s) (s.len %[4]s))) (mk.bytes %[6]s (win %[7]s %[8]s %[6]s))))",
			newlen, nm, res, s, oldrow, tlen, trow, toff))
	}
	g.define(v, res)
	return g.update(st2, k, nm)
}

func (g *Gen) copyBuiltin(v ssa.Value, args []ssa.Value, st *State) *State {
	dsl := types.Unalias(args[0].Type()).Underlying().(*types.Slice)
	et := dsl.Elem()
	k := g.u.ElemComp(et)
	mem := g.read(st, k)
	d := g.val(args[0])
	var slen, srow, soff Term
	if bt, ok := types.Unalias(args[1].Type()).Underlying().(*types.Basic); ok && bt.Info()&types.IsString != 0 {
		str := g.val(args[1])
		slen, srow, soff = fmt.Sprintf("(slen %s)", str), fmt.Sprintf("(str.bytes %s)", str), "0"
	} else {
		s := g.val(args[1])
		slen = fmt.Sprintf("(s.len %s)", s)
		srow = fmt.Sprintf("(select %s (s.base %s))", mem, s)
		soff = fmt.Sprintf("(s.off %s)", s)
	}
	// constant-length copies (hashes, keys, fixed records) are unrolled into
	// ground stores: no quantifier, no matching loops
	if dl, ok := constSliceLen(args[0]); ok {
		if sl, ok2 := constSliceLen(args[1]); ok2 {
			cn := dl
			if sl < cn {
				cn = sl
			}
			if cn <= 72 {
				drow0 := fmt.Sprintf("(select %s (s.base %s))", mem, d)
				row := drow0
				for i := 0; i < cn; i++ {
					row = fmt.Sprintf("(store %s (loc (s.off %s) %d) (select %s (loc %s %d)))", row, d, i, srow, soff, i)
				}
				if v != nil {
					if _, used := v.(*ssa.Call); used {
						g.define(v, fmt.Sprint(cn))
					}
				}
				if cn == 0 {
					return st
				}
				rowc := g.fresh("copy.row", "(Array Int "+g.u.SortOf(et)+")")
				g.assert(fmt.Sprintf("(= %s %s)", rowc, row))
				return g.update(st, k, fmt.Sprintf("(store %s (s.base %s) %s)", mem, d, rowc))
			}
		}
	}
	n := g.fresh("copy.n", "Int")
	g.assert(fmt.Sprintf("(= %s (ite (<= (s.len %s) %s) (s.len %s) %s))", n, d, slen, d, slen))
	drow := fmt.Sprintf("(select %s (s.base %s))", mem, d)
	row := g.fresh("copy.row", "(Array Int "+g.u.SortOf(et)+")")
	g.assert(fmt.Sprintf("(forall ((i!c Int)) (! (= (select %s i!c) (ite (and (<= (s.off %s) i!c) (< i!c (+ (s.off %s) %s))) (select %s (loc %s (- i!c (s.off %s)))) (select %s i!c))) :pattern ((select %s i!c))))",
		row, d, d, n, srow, soff, d, drow, row))
	nm := fmt.Sprintf("(ite (= %s 0) %s (store %s (s.base %s) %s))", n, mem, mem, d, row)
	if v != nil {
		if _, used := v.(*ssa.Call); used {
			g.define(v, n)
		}
	}
	return g.update(st, k, nm)
}

// bytesOfString models []byte(str).
func (g *Gen) bytesOfString(x *ssa.Convert, s Term) Term {
	// handled as a pure value: fresh base whose row equals str.bytes; the
	// allocation itself is performed in convertAlloc (instr dispatch)
	g.fail("NEEDS-MODEL []byte(string) conversion at %s", g.pos(x))
	return ""
}

func (g *Gen) makeMap(x *ssa.MakeMap, st *State) *State {
	mt := types.Unalias(x.Type()).Underlying().(*types.Map)
	md, _ := g.u.MapComps(mt)
	r, st := g.allocRef(st)
	g.define(x, r)
	empty := "((as const (Array " + g.u.SortOf(mt.Key()) + " Bool)) false)"
	return g.update(st, md, fmt.Sprintf("(store %s %s %s)", g.read(st, md), g.vals[x], empty))
}

func (g *Gen) mapUpdate(x *ssa.MapUpdate, st *State) *State {
	mt := types.Unalias(x.Map.Type()).Underlying().(*types.Map)
	md, mv := g.u.MapComps(mt)
	m, k, v := g.val(x.Map), g.val(x.Key), g.val(x.Value)
	g.safety("nilmap", x, fmt.Sprintf("(not (= %s 0))", m))
	d, vv := g.read(st, md), g.read(st, mv)
	st = g.update(st, md, fmt.Sprintf("(store %s %s (store (select %s %s) %s true))", d, m, d, m, k))
	return g.update(st, mv, fmt.Sprintf("(store %s %s (store (select %s %s) %s %s))", vv, m, vv, m, k, v))
}

func (g *Gen) lookup(x *ssa.Lookup, st *State) {
	mt, ok := types.Unalias(x.X.Type()).Underlying().(*types.Map)
	if !ok {
		// string index
		g.havocVal(x, st)
		return
	}
	md, mv := g.u.MapComps(mt)
	m, k := g.val(x.X), g.val(x.Index)
	has := fmt.Sprintf("(and (not (= %s 0)) (select (select %s %s) %s))", m, g.read(st, md), m, k)
	val := fmt.Sprintf("(ite %s (select (select %s %s) %s) %s)", has, g.read(st, mv), m, k, g.u.ZeroValue(mt.Elem()))
	if x.CommaOk {
		r := g.fresh(g.valName(x)+"!v", g.u.SortOf(mt.Elem()))
		g.assert(fmt.Sprintf("(= %s %s)", r, val))
		g.assert(g.u.rangeFact(r, mt.Elem(), g.top(st)))
		okc := g.fresh(g.valName(x)+"!ok", "Bool")
		g.assert(fmt.Sprintf("(= %s %s)", okc, has))
		g.tuples[x] = []Term{r, okc}
		return
	}
	g.define(x, val)
	g.assert(g.u.rangeFact(g.vals[x], mt.Elem(), g.top(st)))
}

// rangeInit / rangeNext: iteration over a map visits an arbitrary not yet
// visited key each time (ghost set "seen", kept as a loop-carried ghost).
func (g *Gen) rangeInit(x *ssa.Range, st *State) *State {
	switch t := types.Unalias(x.X.Type()).Underlying().(type) {
	case *types.Map:
		g.rangeSt[x] = &rangeState{mapRef: g.val(x.X), mapType: t}
		// nothing has been visited yet
		ks := g.u.SortOf(t.Key())
		return g.update(st, g.seenComp(x, ks), "((as const (Array "+ks+" Bool)) false)")
	default:
		g.rangeSt[x] = &rangeState{str: true}
	}
	return st
}

// mapDom: the key set of map m. The nil map has no keys: every version of a
// key-set component satisfies MD[0] = empty (compWF), so no case split is needed.
func (g *Gen) mapDom(st *State, mt *types.Map, m Term) Term {
	md, _ := g.u.MapComps(mt)
	return fmt.Sprintf("(select %s %s)", g.read(st, md), m)
}

// seenComp: the ghost set of keys already visited by the map iteration it.
func (g *Gen) seenComp(it ssa.Value, keySort string) string {
	return g.u.GhostComp(fmt.Sprintf("$seen.%s", it.Name()), "(Array "+keySort+" Bool)")
}

func (g *Gen) rangeNext(x *ssa.Next, st *State) *State {
	rs := g.rangeSt[x.Iter]
	if rs == nil || rs.str {
		// string iteration: abstract
		ok := g.fresh("next.ok", "Bool")
		k := g.fresh("next.k", "Int")
		v := g.fresh("next.v", "Int")
		g.tuples[x] = []Term{ok, k, v}
		return st
	}
	mt := rs.mapType
	mdKey, mv := g.u.MapComps(mt)
	ks := g.u.SortOf(mt.Key())
	seenKey := g.seenComp(x.Iter, ks)
	seen := g.read(st, seenKey)
	ok := g.fresh("next.ok", "Bool")
	k := g.fresh("next.k", ks)
	v := g.fresh("next.v", g.u.SortOf(mt.Elem()))
	dom := g.mapDom(st, mt, rs.mapRef)
	// ranging over a nil map visits nothing
	g.assert(fmt.Sprintf("(=> (= %s 0) (not %s))", rs.mapRef, ok))
	g.assert(g.u.rangeFact(k, mt.Key(), g.top(st)))
	g.assert(g.u.rangeFact(v, mt.Elem(), g.top(st)))
	// ok: k is an unvisited key of the map; !ok: every key has been visited
	g.assert(fmt.Sprintf("(=> %s (and (select %s %s) (not (select %s %s)) (= %s (select (select %s %s) %s))))",
		ok, dom, k, seen, k, v, g.read(st, mv), rs.mapRef, k))
	qk := "k!n"
	g.assert(fmt.Sprintf("(=> (not %s) (forall ((%s %s)) (! (=> (select %s %s) (select %s %s)) :pattern ((select (select %s %s) %s)))))",
		ok, qk, ks, dom, qk, seen, qk, g.read(st, mdKey), rs.mapRef, qk))
	g.tuples[x] = []Term{ok, k, v}
	return g.update(st, seenKey, fmt.Sprintf("(ite %s (store %s %s true) %s)", ok, seen, k, seen))
}

// Channel model (G-CHAN): per channel reference c and element type, the
// sequence of values received so far from c (recvSeq[c][0..recvN[c])) and the
// sequence of values sent into c (sendSeq[c][0..sendN[c])), as seen by the
// goroutine under verification. A `select` may take ANY of its cases (and its
// default, if it has one): every scheduler choice is covered.
func (g *Gen) chanComps(elem types.Type) (recvN, recvSeq, sendN, sendSeq string) {
	k := typeKey(elem)
	es := g.u.SortOf(elem)
	recvN, recvSeq, sendN, sendSeq = "G|$chan.recvN|"+k, "G|$chan.recvSeq|"+k, "G|$chan.sendN|"+k, "G|$chan.sendSeq|"+k
	g.u.compSort[recvN] = "(Array Int Int)"
	g.u.compSort[sendN] = "(Array Int Int)"
	g.u.compSort[recvSeq] = "(Array Int (Array Int " + es + "))"
	g.u.compSort[sendSeq] = "(Array Int (Array Int " + es + "))"
	return
}

func chanElem(t types.Type) types.Type {
	return types.Unalias(t).Underlying().(*types.Chan).Elem()
}

func (g *Gen) selectInstr(x *ssa.Select, st *State) *State {
	n := len(x.States)
	idx := g.fresh("sel.idx", "Int")
	lo := "0"
	if !x.Blocking {
		lo = "(- 1)"
	}
	g.assert(fmt.Sprintf("(and (<= %s %s) (< %s %d))", lo, idx, idx, n))
	okc := g.fresh("sel.ok", "Bool")
	res := []Term{idx, okc}
	out := st
	for i, s := range x.States {
		et := chanElem(s.Chan.Type())
		rN, rS, sN, sS := g.chanComps(et)
		c := g.val(s.Chan)
		chosen := fmt.Sprintf("(= %s %d)", idx, i)
		if s.Dir == types.RecvOnly {
			cnt := fmt.Sprintf("(select %s %s)", g.read(out, rN), c)
			v := g.fresh("sel.recv", g.u.SortOf(et))
			g.assert(fmt.Sprintf("(= %s (ite %s (select (select %s %s) %s) %s))", v, chosen, g.read(out, rS), c, cnt, g.u.ZeroValue(et)))
			g.assert(g.u.rangeFact(v, et, g.top(out)))
			res = append(res, v)
			cur := g.read(out, rN)
			out = g.update(out, rN, fmt.Sprintf("(ite %s (store %s %s (+ %s 1)) %s)", chosen, cur, c, cnt, cur))
		} else {
			cnt := fmt.Sprintf("(select %s %s)", g.read(out, sN), c)
			curS, curN := g.read(out, sS), g.read(out, sN)
			out = g.update(out, sS, fmt.Sprintf("(ite %s (store %s %s (store (select %s %s) %s %s)) %s)", chosen, curS, c, curS, c, cnt, g.val(s.Send), curS))
			out = g.update(out, sN, fmt.Sprintf("(ite %s (store %s %s (+ %s 1)) %s)", chosen, curN, c, cnt, curN))
		}
	}
	g.tuples[x] = res
	g.abstractedOnce("select: every case (and default) is considered enabled; channels are FIFO and deliver each value once (G-CHAN)")
	return out
}

func (g *Gen) send(x *ssa.Send, st *State) *State {
	et := chanElem(x.Chan.Type())
	_, _, sN, sS := g.chanComps(et)
	c := g.val(x.Chan)
	cnt := fmt.Sprintf("(select %s %s)", g.read(st, sN), c)
	curS, curN := g.read(st, sS), g.read(st, sN)
	st = g.update(st, sS, fmt.Sprintf("(store %s %s (store (select %s %s) %s %s))", curS, c, curS, c, cnt, g.val(x.X)))
	return g.update(st, sN, fmt.Sprintf("(store %s %s (+ %s 1))", curN, c, cnt))
}

func (g *Gen) recv(x *ssa.UnOp, st *State) *State {
	et := chanElem(x.X.Type())
	rN, rS, _, _ := g.chanComps(et)
	c := g.val(x.X)
	cnt := fmt.Sprintf("(select %s %s)", g.read(st, rN), c)
	v := fmt.Sprintf("(select (select %s %s) %s)", g.read(st, rS), c, cnt)
	if x.CommaOk {
		r := g.fresh(g.valName(x)+"!v", g.u.SortOf(et))
		g.assert(fmt.Sprintf("(= %s %s)", r, v))
		okc := g.fresh(g.valName(x)+"!ok", "Bool")
		g.tuples[x] = []Term{r, okc}
	} else {
		g.define(x, v)
	}
	cur := g.read(st, rN)
	return g.update(st, rN, fmt.Sprintf("(store %s %s (+ %s 1))", cur, c, cnt))
}

// constSliceLen: statically known length of a slice value (slice expressions
// with constant bounds over arrays or slices).
func constSliceLen(v ssa.Value) (int, bool) {
	sl, ok := v.(*ssa.Slice)
	if !ok {
		return 0, false
	}
	lo := int64(0)
	if sl.Low != nil {
		c, ok := constInt(sl.Low)
		if !ok || !c.IsInt64() {
			return 0, false
		}
		lo = c.Int64()
	}
	var hi int64
	if sl.High != nil {
		c, ok := constInt(sl.High)
		if !ok || !c.IsInt64() {
			return 0, false
		}
		hi = c.Int64()
	} else {
		pt, ok := types.Unalias(sl.X.Type()).Underlying().(*types.Pointer)
		if !ok {
			return 0, false
		}
		at, ok := types.Unalias(pt.Elem()).Underlying().(*types.Array)
		if !ok {
			return 0, false
		}
		hi = at.Len()
	}
	if hi < lo || hi-lo > 1<<20 {
		return 0, false
	}
	return int(hi - lo), true
}
