package snacl

// Replay scenario for SecretKey.DeriveKey / Marshal / Unmarshal obligations:
// stored parameters with any single digest bit flipped, and near-miss
// passphrases, must be refused; the exact passphrase must be accepted after a
// Marshal/Unmarshal round trip.

import (
	"fmt"
	"testing"
)

func TestGovcReplay(t *testing.T) {
	_ = govcModel(t)
	pass := []byte("correct horse battery staple")
	sk, err := NewSecretKey(&pass, 16, 8, 1)
	if err != nil {
		t.Fatal(err)
	}
	m := sk.Marshal()
	bad := 0
	var sk2 SecretKey
	if err := sk2.Unmarshal(m); err != nil {
		fmt.Println("unmarshal of marshalled parameters failed:", err)
		bad++
	} else if err := sk2.DeriveKey(&pass); err != nil {
		fmt.Println("exact passphrase rejected after round trip:", err)
		bad++
	} else if sk2.Parameters != sk.Parameters {
		fmt.Println("parameters changed by the round trip")
		bad++
	}
	for _, l := range []int{0, 1, 87, 89, 100} {
		var s SecretKey
		if err := s.Unmarshal(make([]byte, l)); err == nil {
			fmt.Printf("Unmarshal accepted %d bytes\n", l)
			bad++
		}
	}
	for bit := 0; bit < 256; bit++ {
		c := append([]byte(nil), m...)
		c[32+bit/8] ^= 1 << (bit % 8)
		var s SecretKey
		if err := s.Unmarshal(c); err != nil {
			continue
		}
		if err := s.DeriveKey(&pass); err == nil {
			if bad < 5 {
				fmt.Printf("digest with bit %d flipped accepted\n", bit)
			}
			bad++
		}
	}
	for _, w := range [][]byte{[]byte("correct horse battery stapl"), []byte("correct horse battery staple "), []byte("Correct horse battery staple"), {}} {
		var s SecretKey
		s.Unmarshal(m)
		w := w
		if err := s.DeriveKey(&w); err == nil {
			fmt.Printf("near-miss passphrase %q accepted\n", w)
			bad++
		}
	}
	if bad > 0 {
		fmt.Printf("REPLAY-VIOLATION %d wrong acceptances / rejections\n", bad)
		return
	}
	fmt.Println("REPLAY-OK")
}
