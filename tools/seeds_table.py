#!/usr/bin/env python3
"""Prints the markdown table of seeded changes for DESIGN.md section 10.5 from /verif/seeded/*/*/meta.json."""
import json, glob
rows = []
for d in sorted(glob.glob('/verif/seeded/*/*/')):
    try:
        m = json.load(open(d + 'meta.json'))
    except Exception:
        continue
    prop, name = d.split('/')[-3], d.split('/')[-2]
    what = ' '.join(str(m.get('what', '')).split())
    if len(what) > 170:
        what = what[:167] + '...'
    v = [x.strip() for x in m.get('violations', [])][:2]
    caught = m.get('caught_by_quick_check')
    by = ', '.join('`%s`' % x.replace('_', '$', 0) for x in v) if caught else '**missed**'
    if m.get('note'):
        by += ' — ' + m['note']
    rows.append('| %s/%s | %s | %s |' % (prop, name, what.replace('|', '/'), by))
print('| Seed | Change | Caught by (quick check of the property) |')
print('|---|---|---|')
print('\n'.join(rows))
