package vc

import (
	"crypto/sha1"
	"encoding/hex"
	"fmt"
	"os"
	"go/token"
	"go/types"
	"math/big"
	"strings"

	"golang.org/x/tools/go/ssa"
)

func (g *Gen) pos(in ssa.Instruction) string {
	p := in.Pos()
	if !p.IsValid() {
		return ""
	}
	ps := g.prog.Fset.Position(p)
	return fmt.Sprintf("%s:%d", strings.TrimPrefix(ps.Filename, g.prog.RepoRoot+"/"), ps.Line)
}

// define binds an SSA value to a fresh constant equal to term t.
func (g *Gen) define(v ssa.Value, t Term) {
	name := g.valName(v)
	if g.depth > 0 || g.declared[name] {
		name = g.fresh(name+"!i", g.u.SortOf(v.Type()))
	} else {
		g.declare(name, g.u.SortOf(v.Type()))
	}
	g.assert(fmt.Sprintf("(= %s %s)", name, t))
	g.vals[v] = name
}

// havocVal binds an SSA value to an unconstrained (but well-typed) constant.
func (g *Gen) havocVal(v ssa.Value, st *State) Term {
	name := g.valName(v)
	if g.depth > 0 || g.declared[name] {
		name = g.fresh(name+"!i", g.u.SortOf(v.Type()))
	} else {
		g.declare(name, g.u.SortOf(v.Type()))
	}
	g.assert(g.u.rangeFact(name, v.Type(), g.top(st)))
	g.vals[v] = name
	return name
}

func (g *Gen) safety(kind string, in ssa.Instruction, goal Term) {
	// Execution continues past this point only if the check passed (otherwise
	// the program panics and no postcondition applies). The check may use
	// that every EARLIER check passed, never itself or a later one: sf!i is
	// a defined Boolean "checks 1..i passed", site i is proved under sf!(i-1),
	// and everything that is not a safety obligation is proved under the
	// last sf (checks on other paths are guarded by their reachability).
	g.check("safety", kind, g.reach[g.curBlock], goal, "")
}

// prefix is the Boolean "every check generated so far passed".
func (g *Gen) prefix() Term {
	if g.sfPrefix == "" {
		return "true"
	}
	return g.sfPrefix
}

// chain extends the prefix with one more check.
func (g *Gen) chain(part Term) {
	prev := g.prefix()
	g.shared.sfN++
	name := fmt.Sprintf("sf!%d", g.shared.sfN)
	g.declare(name, "Bool")
	g.assert(fmt.Sprintf("(= %s (and %s %s))", name, prev, part))
	g.shared.sfPrefix = name
}

// check registers one site of a (merged) chained obligation: proved under the
// prefix of earlier checks, then added to the prefix. Assumptions that are
// justified by a check (callee postconditions by the callee's preconditions,
// loop-head invariants by their entry check) are guarded by the prefix, so a
// check can never be discharged from an assumption that depends on it.
func (g *Gen) check(kind, label string, reach, goal Term, src string) {
	part := fmt.Sprintf("(=> %s %s)", reach, goal)
	if !g.rootGen().umode {
		// (the unconditional pass re-walks the body: its run-time checks are
		// the obligations of the conditional pass, not generated twice)
		g.rootGen().deferObl(kind, label, g.prefix(), part, src)
	}
	g.chain(part)
}

// guarded is the condition under which an assumption made at the current
// point is in force: the point is reached and no earlier check failed.
func (g *Gen) guarded(reach Term) Term {
	if g.sfPrefix == "" {
		return reach
	}
	return fmt.Sprintf("(and %s %s)", g.sfPrefix, reach)
}

var srcLines = map[string][]string{}

// lineKey identifies the source line of an instruction by a hash of its text,
// so that obligation names survive edits elsewhere in the file.
func (g *Gen) lineKey(in ssa.Instruction) string {
	p := in.Pos()
	if !p.IsValid() {
		// fall back to the nearest positioned instruction in the block
		for _, o := range in.Block().Instrs {
			if o.Pos().IsValid() {
				p = o.Pos()
				break
			}
		}
		if !p.IsValid() {
			return "nopos"
		}
	}
	ps := g.prog.Fset.Position(p)
	lines, ok := srcLines[ps.Filename]
	if !ok {
		data, err := os.ReadFile(ps.Filename)
		if err == nil {
			lines = strings.Split(string(data), "\n")
		}
		srcLines[ps.Filename] = lines
	}
	if ps.Line-1 >= len(lines) || ps.Line < 1 {
		return "nopos"
	}
	text := strings.Join(strings.Fields(lines[ps.Line-1]), "")
	h := sha1.Sum([]byte(text))
	return hex.EncodeToString(h[:])[:6]
}

// instr processes one instruction; returns nil when the block terminates.
func (g *Gen) instr(in ssa.Instruction, st *State) *State {
	g.curInstr = in
	switch x := in.(type) {
	case *ssa.DebugRef:
		return st
	case *ssa.BinOp:
		g.define(x, g.binop(x, st))
	case *ssa.UnOp:
		return g.unop(x, st)
	case *ssa.Convert:
		if _, toSlice := types.Unalias(x.Type()).Underlying().(*types.Slice); toSlice {
			if fb, ok := types.Unalias(x.X.Type()).Underlying().(*types.Basic); ok && fb.Info()&types.IsString != 0 {
				// []byte(str): fresh backing array holding the string's bytes
				var r Term
				r, st = g.allocRef(st)
				sv := g.val(x.X)
				et := types.Unalias(x.Type()).Underlying().(*types.Slice).Elem()
				k := g.u.ElemComp(et)
				if g.u.SortOf(et) != "Int" {
					g.fail("NEEDS-MODEL []rune(string) conversion at %s", g.pos(x))
				}
				st = g.update(st, k, fmt.Sprintf("(store %s %s (str.bytes %s))", g.read(st, k), r, sv))
				g.define(x, fmt.Sprintf("(mk.slice %s 0 (slen %s) (slen %s))", r, sv, sv))
				return st
			}
		}
		g.define(x, g.convert(x))
	case *ssa.ChangeType:
		g.vals[x] = g.val(x.X)
		if cl, ok := g.clos[x.X]; ok {
			g.clos[x] = cl
		}
	case *ssa.ChangeInterface:
		g.vals[x] = g.val(x.X)
	case *ssa.MakeInterface:
		return g.makeInterface(x, st)
	case *ssa.TypeAssert:
		return g.typeAssert(x, st)
	case *ssa.Alloc:
		return g.alloc(x, st)
	case *ssa.FieldAddr:
		if !g.derefOK(x.X) {
			g.safety("nil", in, fmt.Sprintf("(not (= %s 0))", g.val(x.X)))
		}
		g.fieldAddr(x)
	case *ssa.Field:
		si := g.u.StructOf(x.X.Type())
		g.define(x, fmt.Sprintf("(%s %s)", si.Fields[x.Field].Acc, g.val(x.X)))
	case *ssa.IndexAddr:
		g.indexAddr(x, st)
	case *ssa.Index:
		g.index(x, st)
	case *ssa.Slice:
		return g.slice(x, st)
	case *ssa.Store:
		p := g.placeOf(x.Addr)
		if cl, ok := g.clos[x.Val]; ok {
			_ = cl
		}
		return g.store(st, p, g.val(x.Val))
	case *ssa.Extract:
		tup := g.tuples[x.Tuple]
		if tup == nil {
			g.fail("extract from unknown tuple %s", x.Tuple.Name())
		}
		g.vals[x] = tup[x.Index]
	case *ssa.Call:
		return g.call(x, x.Common(), st)
	case *ssa.Defer:
		g.defers = append(g.defers, x)
	case *ssa.RunDefers:
		return g.runDefers(x, st)
	case *ssa.Go:
		// goroutine start: no effect on the verified (sequential) state
	case *ssa.MakeClosure:
		g.clos[x] = x
		g.vals[x] = fmt.Sprint(g.u.FnID(FuncKey(x.Fn.(*ssa.Function))))
	case *ssa.MakeSlice:
		return g.makeSlice(x, st)
	case *ssa.MakeMap:
		return g.makeMap(x, st)
	case *ssa.MakeChan:
		r, st2 := g.allocRef(st)
		g.define(x, r)
		return st2
	case *ssa.MapUpdate:
		return g.mapUpdate(x, st)
	case *ssa.Lookup:
		g.lookup(x, st)
	case *ssa.Range:
		return g.rangeInit(x, st)
	case *ssa.Next:
		return g.rangeNext(x, st)
	case *ssa.If, *ssa.Jump:
		return st
	case *ssa.Return:
		g.ret(x, st)
		return nil
	case *ssa.Panic:
		g.panics = append(g.panics, g.reach[g.curBlock])
		return nil
	case *ssa.Select:
		return g.selectInstr(x, st)
	case *ssa.Send:
		return g.send(x, st)
	case *ssa.SliceToArrayPointer:
		s := g.val(x.X)
		g.define(x, fmt.Sprintf("(s.base %s)", s))
	default:
		g.fail("NEEDS-MODEL instruction %T: %s", in, in)
	}
	return st
}

func (g *Gen) derefOK(v ssa.Value) bool {
	switch v.(type) {
	case *ssa.Alloc, *ssa.Global, *ssa.FieldAddr, *ssa.IndexAddr, *ssa.FreeVar:
		return true
	}
	return false
}

// wrap1 wraps a value known to be at most one modulus away from the range of
// b (sums/differences of in-range operands, same-width conversions): no mod.
func wrap1(e Term, b *types.Basic) Term {
	lo, hi := intRange(b)
	mod := new(big.Int).Add(new(big.Int).Sub(hi, lo), big.NewInt(1))
	return fmt.Sprintf("(ite (> %s %s) (- %s %s) (ite (< %s %s) (+ %s %s) %s))", e, intLit(hi), e, intLit(mod), e, intLit(lo), e, intLit(mod), e)
}

func sameWidth(a, b *types.Basic) bool {
	la, ha := intRange(a)
	lb, hb := intRange(b)
	return new(big.Int).Sub(ha, la).Cmp(new(big.Int).Sub(hb, lb)) == 0
}

func wrapTerm(e Term, b *types.Basic) Term {
	lo, hi := intRange(b)
	mod := new(big.Int).Add(new(big.Int).Sub(hi, lo), big.NewInt(1))
	if lo.Sign() == 0 {
		return fmt.Sprintf("(ite (and (<= 0 %s) (<= %s %s)) %s (mod %s %s))", e, e, intLit(hi), e, e, intLit(mod))
	}
	// signed: ((e - lo) mod 2^n) + lo
	return fmt.Sprintf("(ite (and (<= %s %s) (<= %s %s)) %s (+ (mod (- %s %s) %s) %s))",
		intLit(lo), e, e, intLit(hi), e, e, intLit(lo), intLit(mod), intLit(lo))
}

func (g *Gen) binop(x *ssa.BinOp, st *State) Term {
	a, b := g.val(x.X), g.val(x.Y)
	xt := types.Unalias(x.X.Type()).Underlying()
	bi := basicInt(x.Type())
	switch x.Op {
	case token.ADD, token.SUB, token.MUL:
		if bs, ok := xt.(*types.Basic); ok && bs.Info()&types.IsString != 0 {
			r := g.fresh("strcat", "Str")
			g.assert(fmt.Sprintf("(= (slen %s) (+ (slen %s) (slen %s)))", r, a, b))
			return r
		}
		if bi == nil {
			return g.fresh("float", g.u.SortOf(x.Type()))
		}
		op := map[token.Token]string{token.ADD: "+", token.SUB: "-", token.MUL: "*"}[x.Op]
		e := fmt.Sprintf("(%s %s %s)", op, a, b)
		lo, hi := intRange(bi)
		ovfReach := g.reach[g.curBlock]
		if g.sfPrefix != "" {
			ovfReach = fmt.Sprintf("(and %s %s)", g.sfPrefix, ovfReach)
		}
		if !g.rootGen().umode {
			g.rootGen().deferObl("safety", "ovf", ovfReach,
				fmt.Sprintf("(and (<= %s %s) (<= %s %s))", intLit(lo), e, e, intLit(hi)), "")
		}
		if x.Op != token.MUL {
			return wrap1(e, bi)
		}
		return wrapTerm(e, bi)
	case token.QUO, token.REM:
		if bi == nil {
			return g.fresh("float", g.u.SortOf(x.Type()))
		}
		g.safety("div", x, fmt.Sprintf("(not (= %s 0))", b))
		// Go truncated division
		q := fmt.Sprintf("(ite (>= %s 0) (div %s %s) (- (div (- %s) %s)))", a, a, b, a, b)
		lo, _ := intRange(bi)
		if lo.Sign() == 0 {
			q = fmt.Sprintf("(div %s %s)", a, b)
		}
		if x.Op == token.QUO {
			if lo.Sign() != 0 {
				return wrapTerm(q, bi)
			}
			return q
		}
		return fmt.Sprintf("(- %s (* %s %s))", a, b, q)
	case token.EQL, token.NEQ:
		eq := g.equal(x.X.Type(), a, b, st)
		if _, isIface := xt.(*types.Interface); isIface && (isGlobalLoad(x.X) || isGlobalLoad(x.Y)) {
			// comparison with a package-level sentinel (errors.New value, a
			// pointer): Go's interface equality is identity of (type, pointer)
			eq = fmt.Sprintf("(= %s %s)", a, b)
		}
		if x.Op == token.NEQ {
			return "(not " + eq + ")"
		}
		return eq
	case token.LSS, token.LEQ, token.GTR, token.GEQ:
		if basicInt(x.X.Type()) == nil {
			return g.fresh("cmp", "Bool")
		}
		op := map[token.Token]string{token.LSS: "<", token.LEQ: "<=", token.GTR: ">", token.GEQ: ">="}[x.Op]
		return fmt.Sprintf("(%s %s %s)", op, a, b)
	case token.LAND, token.AND:
		if b, ok := xt.(*types.Basic); ok && b.Info()&types.IsBoolean != 0 {
			return fmt.Sprintf("(and %s %s)", a, g.val(x.Y))
		}
	case token.OR, token.LOR:
		if b, ok := xt.(*types.Basic); ok && b.Info()&types.IsBoolean != 0 {
			return fmt.Sprintf("(or %s %s)", a, g.val(x.Y))
		}
	}
	if bi != nil {
		return g.bitop(x, a, b, bi)
	}
	g.fail("NEEDS-MODEL binop %s on %s", x.Op, x.X.Type())
	return ""
}

func constInt(v ssa.Value) (*big.Int, bool) {
	c, ok := v.(*ssa.Const)
	if !ok || c.Value == nil {
		return nil, false
	}
	bi, ok := new(big.Int).SetString(c.Value.ExactString(), 10)
	return bi, ok
}

// bitop models shifts by constants and masks with constants exactly; other
// bit operations yield an uninterpreted (but well-typed) result.
func (g *Gen) bitop(x *ssa.BinOp, a, b Term, bi *types.Basic) Term {
	lo, hi := intRange(bi)
	switch x.Op {
	case token.SHL:
		if k, ok := constInt(x.Y); ok && k.IsInt64() && k.Int64() < 64 {
			p := new(big.Int).Lsh(big.NewInt(1), uint(k.Int64()))
			return wrapTerm(fmt.Sprintf("(* %s %s)", a, p), bi)
		}
	case token.SHR:
		if k, ok := constInt(x.Y); ok && k.IsInt64() && k.Int64() < 64 {
			p := new(big.Int).Lsh(big.NewInt(1), uint(k.Int64()))
			return fmt.Sprintf("(div %s %s)", a, p)
		}
	case token.AND:
		if k, ok := constInt(x.Y); ok && lo.Sign() == 0 {
			// mask 2^n-1 -> mod 2^n ; single-bit mask -> bit extraction
			k1 := new(big.Int).Add(k, big.NewInt(1))
			if k.Sign() > 0 && new(big.Int).And(k, k1).Sign() == 0 {
				return fmt.Sprintf("(mod %s %s)", a, k1)
			}
			if k.Sign() > 0 && new(big.Int).And(k, new(big.Int).Sub(k, big.NewInt(1))).Sign() == 0 {
				return fmt.Sprintf("(* %s (mod (div %s %s) 2))", k, a, k)
			}
		}
	case token.OR:
		if k, ok := constInt(x.Y); ok && lo.Sign() == 0 && k.Sign() > 0 &&
			new(big.Int).And(k, new(big.Int).Sub(k, big.NewInt(1))).Sign() == 0 {
			// set single bit
			return fmt.Sprintf("(ite (= (mod (div %s %s) 2) 1) %s (+ %s %s))", a, k, a, a, k)
		}
	case token.AND_NOT:
		if k, ok := constInt(x.Y); ok && lo.Sign() == 0 && k.Sign() > 0 &&
			new(big.Int).And(k, new(big.Int).Sub(k, big.NewInt(1))).Sign() == 0 {
			return fmt.Sprintf("(ite (= (mod (div %s %s) 2) 1) (- %s %s) %s)", a, k, a, k, a)
		}
	}
	r := g.fresh("bitop", "Int")
	g.assert(fmt.Sprintf("(and (<= %s %s) (<= %s %s))", intLit(lo), r, r, intLit(hi)))
	g.abstracted = append(g.abstracted, fmt.Sprintf("abstracted-bitop %s at %s", x.Op, g.pos(x)))
	return r
}

// equal encodes Go == on type t.
func (g *Gen) equal(t types.Type, a, b Term, st *State) Term {
	switch x := types.Unalias(t).Underlying().(type) {
	case *types.Basic:
		if x.Info()&types.IsFloat != 0 {
			return g.fresh("feq", "Bool")
		}
	case *types.Slice:
		// only comparison with nil is legal
		if a == "nil.slice" {
			return fmt.Sprintf("(= (s.base %s) 0)", b)
		}
		return fmt.Sprintf("(= (s.base %s) 0)", a)
	case *types.Interface:
		// comparison with nil is exact; otherwise identity of (type, payload) for
		// pointer payloads, abstract for boxed values
		if a == "nil.iface" || b == "nil.iface" {
			return fmt.Sprintf("(= %s %s)", a, b)
		}
		return fmt.Sprintf("(iface.eq %s %s)", a, b)
	case *types.Array:
		if n := x.Len(); n <= 64 {
			// bounded extensional equality keeps the VC quantifier free
			var parts []string
			for i := int64(0); i < n; i++ {
				parts = append(parts, g.equal(x.Elem(), fmt.Sprintf("(select %s %d)", a, i), fmt.Sprintf("(select %s %d)", b, i), st))
			}
			if len(parts) == 0 {
				return "true"
			}
			if typeKey(x.Elem()) == "uint8" && n >= 8 {
				// byte arrays: the same comparison also as equality of the two
				// byte strings (equivalent by extensionality; stated so that
				// contracts over whole byte strings need no pointwise reasoning)
				eq := g.fresh("aeq", "Bool")
				g.assert(fmt.Sprintf("(= %s (and %s))", eq, strings.Join(parts, " ")))
				g.assert(fmt.Sprintf("(= %s (= (mk.bytes %d (win %s 0 %d)) (mk.bytes %d (win %s 0 %d))))", eq, n, a, n, n, b, n))
				return eq
			}
			return "(and " + strings.Join(parts, " ") + ")"
		}
	case *types.Struct:
		si := g.u.StructOf(t)
		var parts []string
		for _, f := range si.Fields {
			parts = append(parts, g.equal(f.Type, fmt.Sprintf("(%s %s)", f.Acc, a), fmt.Sprintf("(%s %s)", f.Acc, b), st))
		}
		if len(parts) == 0 {
			return "true"
		}
		return "(and " + strings.Join(parts, " ") + ")"
	}
	return fmt.Sprintf("(= %s %s)", a, b)
}

func (g *Gen) unop(x *ssa.UnOp, st *State) *State {
	switch x.Op {
	case token.MUL: // load
		if !g.derefOK(x.X) && g.places[x.X] == nil {
			g.safety("nil", x, fmt.Sprintf("(not (= %s 0))", g.val(x.X)))
		}
		p := g.placeOf(x.X)
		v := g.load(st, p)
		g.define(x, v)
		g.assert(g.u.rangeFact(g.vals[x], x.Type(), g.top(st)))
		if gl, ok := x.X.(*ssa.Global); ok {
			// immutable global []byte: its contents are the constant gb.<name>
			if c := g.globalBytes(gl.Pkg.Pkg.Path(), gl.Name(), x.Type()); c != "" {
				sv := g.vals[x]
				mem := g.read(st, g.u.ElemComp(types.Typ[types.Uint8]))
				g.assert(fmt.Sprintf("(= (mk.bytes (s.len %s) (win (select %s (s.base %s)) (s.off %s) (s.len %s))) %s)", sv, mem, sv, sv, sv, c))
				g.abstractedOnce("immutable-global-bytes: package-level []byte variables never written after init keep their contents (" + gl.Name() + ")")
			}
		}
		if fv, ok := x.X.(*ssa.FreeVar); ok {
			_ = fv
		}
	case token.NOT:
		g.define(x, fmt.Sprintf("(not %s)", g.val(x.X)))
	case token.SUB:
		if bi := basicInt(x.Type()); bi != nil {
			g.define(x, wrapTerm(fmt.Sprintf("(- %s)", g.val(x.X)), bi))
		} else {
			g.havocVal(x, st)
		}
	case token.XOR:
		if bi := basicInt(x.Type()); bi != nil {
			lo, hi := intRange(bi)
			if lo.Sign() == 0 {
				g.define(x, fmt.Sprintf("(- %s %s)", intLit(hi), g.val(x.X)))
			} else {
				g.define(x, fmt.Sprintf("(- (- %s) 1)", g.val(x.X)))
			}
		} else {
			g.havocVal(x, st)
		}
	case token.ARROW:
		return g.recv(x, st)
	default:
		g.fail("NEEDS-MODEL unop %s", x.Op)
	}
	return st
}

func (g *Gen) convert(x *ssa.Convert) Term {
	from, to := types.Unalias(x.X.Type()).Underlying(), types.Unalias(x.Type()).Underlying()
	v := g.val(x.X)
	if tb := basicInt(x.Type()); tb != nil {
		if fb := basicInt(x.X.Type()); fb != nil {
			if sameWidth(fb, tb) {
				return wrap1(v, tb)
			}
			return wrapTerm(v, tb)
		}
		if fb, ok := from.(*types.Basic); ok && fb.Kind() == types.UnsafePointer {
			return v
		}
		r := g.fresh("conv", "Int")
		lo, hi := intRange(tb)
		g.assert(fmt.Sprintf("(and (<= %s %s) (<= %s %s))", intLit(lo), r, r, intLit(hi)))
		return r
	}
	switch t := to.(type) {
	case *types.Basic:
		if t.Info()&types.IsString != 0 {
			if _, ok := from.(*types.Slice); ok {
				// string(bytes): length and content
				r := g.fresh("sconv", "Str")
				g.assert(fmt.Sprintf("(= (slen %s) (s.len %s))", r, v))
				g.strFrom[r] = v
				return r
			}
			return g.fresh("sconv", "Str")
		}
		if t.Info()&types.IsFloat != 0 {
			return g.fresh("float", "Float")
		}
		if t.Kind() == types.UnsafePointer {
			return v
		}
	case *types.Slice:
		if fb, ok := from.(*types.Basic); ok && fb.Info()&types.IsString != 0 {
			// []byte(str): fresh backing array holding the string bytes
			return g.bytesOfString(x, v)
		}
	case *types.Pointer:
		return v
	}
	g.fail("NEEDS-MODEL convert %s -> %s", x.X.Type(), x.Type())
	return ""
}

func (g *Gen) makeInterface(x *ssa.MakeInterface, st *State) *State {
	t := x.X.Type()
	id := g.u.TypeID(t)
	switch types.Unalias(t).Underlying().(type) {
	case *types.Pointer, *types.Map, *types.Chan, *types.Signature:
		g.define(x, fmt.Sprintf("(mk.iface %d %s)", id, g.val(x.X)))
		return st
	}
	// box the value
	r, st2 := g.allocRef(st)
	k := g.u.BoxComp(t)
	st2 = g.update(st2, k, fmt.Sprintf("(store %s %s %s)", g.read(st2, k), r, g.val(x.X)))
	g.define(x, fmt.Sprintf("(mk.iface %d %s)", id, r))
	return st2
}

func (g *Gen) typeAssert(x *ssa.TypeAssert, st *State) *State {
	v := g.val(x.X)
	at := x.AssertedType
	var ok, res Term
	if _, isIface := types.Unalias(at).Underlying().(*types.Interface); isIface {
		// interface-to-interface: success is abstract, payload preserved
		okc := g.fresh("ta.ok", "Bool")
		g.assert(fmt.Sprintf("(=> %s (not (= %s nil.iface)))", okc, v))
		ok, res = okc, v
	} else {
		id := g.u.TypeID(at)
		ok = fmt.Sprintf("(= (i.typ %s) %d)", v, id)
		switch types.Unalias(at).Underlying().(type) {
		case *types.Pointer, *types.Map, *types.Chan, *types.Signature:
			res = fmt.Sprintf("(i.val %s)", v)
		default:
			res = fmt.Sprintf("(select %s (i.val %s))", g.read(st, g.u.BoxComp(at)), v)
		}
	}
	if x.CommaOk {
		r := g.fresh(g.valName(x)+"!v", g.u.SortOf(at))
		g.assert(fmt.Sprintf("(= %s (ite %s %s %s))", r, ok, res, g.u.ZeroValue(at)))
		okc := g.fresh(g.valName(x)+"!ok", "Bool")
		g.assert(fmt.Sprintf("(= %s %s)", okc, ok))
		g.tuples[x] = []Term{r, okc}
		return st
	}
	g.safety("typeassert", x, ok)
	g.define(x, res)
	return st
}

// allocRef returns a fresh reference and the state with the allocation top bumped.
func (g *Gen) allocRef(st *State) (Term, *State) {
	r := g.fresh("ref", "Int")
	g.assert(fmt.Sprintf("(> %s %s)", r, g.top(st)))
	if _, ok := g.prog.Specs.Funcs["dbmem"]; ok {
		// Go allocations are never database-owned memory
		g.assert(fmt.Sprintf("(not (f.dbmem %s))", r))
	}
	return r, g.update(st, TopKey, r)
}

// zeroObject zero-initialises the object of type t at ref r.
func (g *Gen) zeroObject(st *State, r Term, t types.Type) *State {
	switch x := types.Unalias(t).Underlying().(type) {
	case *types.Struct:
		si := g.u.StructOf(t)
		for i, f := range si.Fields {
			switch ft := types.Unalias(f.Type).Underlying().(type) {
			case *types.Struct:
				st = g.zeroObject(st, fldRef(r, i), f.Type)
			case *types.Array:
				k := g.u.ElemComp(ft.Elem())
				st = g.update(st, k, fmt.Sprintf("(store %s %s %s)", g.read(st, k), fldRef(r, i), g.u.ZeroValue(f.Type)))
			default:
				k := g.u.FieldComp(t, i)
				st = g.update(st, k, fmt.Sprintf("(store %s %s %s)", g.read(st, k), r, g.u.ZeroValue(f.Type)))
			}
		}
	case *types.Array:
		k := g.u.ElemComp(x.Elem())
		st = g.update(st, k, fmt.Sprintf("(store %s %s %s)", g.read(st, k), r, g.u.ZeroValue(t)))
	default:
		k := g.u.CellComp(t)
		st = g.update(st, k, fmt.Sprintf("(store %s %s %s)", g.read(st, k), r, g.u.ZeroValue(t)))
	}
	return st
}

func (g *Gen) alloc(x *ssa.Alloc, st *State) *State {
	r, st := g.allocRef(st)
	g.define(x, r)
	return g.zeroObject(st, g.vals[x], deref(x.Type()))
}

func (g *Gen) indexAddr(x *ssa.IndexAddr, st *State) {
	i := g.val(x.Index)
	xt := types.Unalias(x.X.Type()).Underlying()
	switch t := xt.(type) {
	case *types.Slice:
		s := g.val(x.X)
		g.safety("index", x, fmt.Sprintf("(and (<= 0 %s) (< %s (s.len %s)))", i, i, s))
		g.places[x] = &Place{Comp: g.u.ElemComp(t.Elem()), Ref: fmt.Sprintf("(s.base %s)", s),
			Idx: fmt.Sprintf("(loc (s.off %s) %s)", s, i), Type: t.Elem()}
	case *types.Pointer:
		at := types.Unalias(t.Elem()).Underlying().(*types.Array)
		g.safety("index", x, fmt.Sprintf("(and (<= 0 %s) (< %s %d))", i, i, at.Len()))
		if base := g.places[x.X]; base != nil || isGlobal(x.X) {
			if base == nil {
				base = g.placeOf(x.X)
			}
			np := *base
			np.Path = append(append([]Step(nil), base.Path...), Step{Index: i})
			np.Type = at.Elem()
			g.places[x] = &np
			return
		}
		g.places[x] = &Place{Comp: g.u.ElemComp(at.Elem()), Ref: g.val(x.X), Idx: i, Type: at.Elem()}
	default:
		g.fail("NEEDS-MODEL IndexAddr on %s", x.X.Type())
	}
	// element of aggregate type: further FieldAddr/IndexAddr navigate by path
}

func (g *Gen) index(x *ssa.Index, st *State) {
	i := g.val(x.Index)
	switch t := types.Unalias(x.X.Type()).Underlying().(type) {
	case *types.Array:
		g.safety("index", x, fmt.Sprintf("(and (<= 0 %s) (< %s %d))", i, i, t.Len()))
		g.define(x, fmt.Sprintf("(select %s %s)", g.val(x.X), i))
	case *types.Basic: // string
		s := g.val(x.X)
		g.safety("index", x, fmt.Sprintf("(and (<= 0 %s) (< %s (slen %s)))", i, i, s))
		g.define(x, fmt.Sprintf("(select (str.bytes %s) %s)", s, i))
		g.assert(fmt.Sprintf("(and (<= 0 %s) (<= %s 255))", g.vals[x], g.vals[x]))
	default:
		g.fail("NEEDS-MODEL Index on %s", x.X.Type())
	}
}

func (g *Gen) slice(x *ssa.Slice, st *State) *State {
	var base, off, ln, cp Term
	str := false
	switch t := types.Unalias(x.X.Type()).Underlying().(type) {
	case *types.Slice:
		s := g.val(x.X)
		base, off, ln, cp = fmt.Sprintf("(s.base %s)", s), fmt.Sprintf("(s.off %s)", s), fmt.Sprintf("(s.len %s)", s), fmt.Sprintf("(s.cap %s)", s)
	case *types.Pointer:
		at := types.Unalias(t.Elem()).Underlying().(*types.Array)
		if pl := g.places[x.X]; pl != nil {
			// array stored by value inside a row element: the slice is modelled
			// as a read-only copy (abstraction, reported)
			var r Term
			r, st = g.allocRef(st)
			k := g.u.ElemComp(at.Elem())
			st = g.update(st, k, fmt.Sprintf("(store %s %s %s)", g.read(st, k), r, g.load(st, pl)))
			g.abstractedOnce("interior-array-slice: a slice of an array stored by value inside a slice element is modelled as a read-only copy")
			base, off, ln, cp = r, "0", fmt.Sprint(at.Len()), fmt.Sprint(at.Len())
		} else {
			base, off, ln, cp = g.val(x.X), "0", fmt.Sprint(at.Len()), fmt.Sprint(at.Len())
		}
	case *types.Basic:
		str = true
	default:
		g.fail("NEEDS-MODEL Slice on %s", x.X.Type())
	}
	if str {
		s := g.val(x.X)
		lo, hi := "0", fmt.Sprintf("(slen %s)", s)
		if x.Low != nil {
			lo = g.val(x.Low)
		}
		if x.High != nil {
			hi = g.val(x.High)
		}
		g.safety("slice", x, fmt.Sprintf("(and (<= 0 %s) (<= %s %s) (<= %s (slen %s)))", lo, lo, hi, hi, s))
		r := g.fresh("substr", "Str")
		g.assert(fmt.Sprintf("(= (slen %s) (- %s %s))", r, hi, lo))
		g.vals[x] = r
		return st
	}
	lo, hi, mx := "0", ln, cp
	if x.Low != nil {
		lo = g.val(x.Low)
	}
	if x.High != nil {
		hi = g.val(x.High)
	}
	if x.Max != nil {
		mx = g.val(x.Max)
	}
	g.safety("slice", x, fmt.Sprintf("(and (<= 0 %s) (<= %s %s) (<= %s %s) (<= %s %s))", lo, lo, hi, hi, mx, mx, cp))
	g.define(x, fmt.Sprintf("(mk.slice %s (+ %s %s) (- %s %s) (- %s %s))", base, off, lo, hi, lo, mx, lo))
	return st
}

func (g *Gen) makeSlice(x *ssa.MakeSlice, st *State) *State {
	et := types.Unalias(x.Type()).Underlying().(*types.Slice).Elem()
	ln, cp := g.val(x.Len), g.val(x.Cap)
	g.safety("makeslice", x, fmt.Sprintf("(and (<= 0 %s) (<= %s %s))", ln, ln, cp))
	r, st := g.allocRef(st)
	k := g.u.ElemComp(et)
	zero := "((as const (Array Int " + g.u.SortOf(et) + ")) " + g.u.ZeroValue(et) + ")"
	st = g.update(st, k, fmt.Sprintf("(store %s %s %s)", g.read(st, k), r, zero))
	g.define(x, fmt.Sprintf("(mk.slice %s 0 %s %s)", r, ln, cp))
	return st
}

func (g *Gen) ret(x *ssa.Return, st *State) {
	g.retBlocks++
	r := g.reach[g.curBlock]
	if g.depth > 0 {
		fr := g.inlineFrames[len(g.inlineFrames)-1]
		var vals []Term
		for _, v := range x.Results {
			vals = append(vals, g.val(v))
		}
		fr.rets = append(fr.rets, inlineRet{cond: r, vals: vals, st: st})
		return
	}
	env := g.newEnv(st, g.entry)
	for i, v := range x.Results {
		tv := TV{g.val(v), g.u.SortOf(v.Type()), v.Type()}
		if i < len(g.results) && g.results[i] != "_" {
			env.vars[g.results[i]] = tv
		}
		env.vars[fmt.Sprintf("result%d", i)] = tv
		if len(x.Results) == 1 {
			env.vars["result"] = tv
		}
	}
	if n := len(x.Results); n > 0 {
		if _, bound := env.vars["err"]; !bound && isErrorType(x.Results[n-1].Type()) {
			v := x.Results[n-1]
			env.vars["err"] = TV{g.val(v), g.u.SortOf(v.Type()), v.Type()}
		}
	}
	if g.umode {
		for _, e := range g.con.Guarantees {
			goal := g.evalBool(env, e.Expr, e.Src)
			g.deferObl("gpost", e.Label, r, goal, e.Src)
		}
	} else {
		for _, e := range g.con.Ensures {
			goal := g.evalBool(env, e.Expr, e.Src)
			g.deferObl("post", e.Label, r, goal, e.Src)
		}
	}
	g.retReach = append(g.retReach, r)
}

func isErrorType(t types.Type) bool {
	n, ok := types.Unalias(t).(*types.Named)
	return ok && n.Obj().Pkg() == nil && n.Obj().Name() == "error"
}

func isGlobalLoad(v ssa.Value) bool {
	u, ok := v.(*ssa.UnOp)
	if !ok || u.Op != token.MUL {
		return false
	}
	_, ok = u.X.(*ssa.Global)
	return ok
}
