#!/bin/bash
# usage: try_seed.sh <patch.diff> <property> [tier]   — applies a seeded change to /repo, runs the check, reverts.
set -u
patch=$1; prop=$2; tier=${3:-quick}
cd /repo || exit 2
if ! git diff --quiet; then echo "repo dirty"; exit 2; fi
git apply "$patch" || { echo "patch does not apply"; exit 2; }
GOVC_NO_EVIDENCE=1 /verif/bin/govc check --property "$prop" --tier "$tier"
rc=$?
git checkout -- . 
echo "exit=$rc"
