// Package smt runs SMT-LIB scripts on the installed solvers (z3-new 5.1.0,
// cvc5 1.0.x, z3 4.8.12) as a portfolio.
package smt

import (
	"bytes"
	"context"
	"fmt"
	"os"
	"os/exec"
	"path/filepath"
	"strings"
	"sync"
	"time"
)

// Result of one obligation.
type Result struct {
	Status string  // unsat | sat | unknown | timeout | error
	Solver string  // which back end decided
	Time   float64 // seconds of the deciding solver
	Model  string  // get-model output when sat
	Output string  // raw output of the last solver (diagnostics)
	Tried  []string
	Candidate bool // Model comes from the quantifier-free relaxation
}

var scratchDir string
var scratchOnce sync.Once

func scratch() string {
	scratchOnce.Do(func() {
		base := os.Getenv("GOVC_TMP")
		if base == "" {
			base = os.TempDir()
		}
		d, err := os.MkdirTemp(base, "govc-smt-")
		if err != nil {
			panic(err)
		}
		scratchDir = d
	})
	return scratchDir
}

// Cleanup removes scratch files.
func Cleanup() {
	if scratchDir != "" {
		os.RemoveAll(scratchDir)
	}
}

type solverSpec struct {
	name string
	argv func(file string, timeout time.Duration) []string
	pre  string
}

var solvers = []solverSpec{
	{"z3-new", func(f string, t time.Duration) []string {
		return []string{"z3-new", "-smt2", fmt.Sprintf("-T:%d", int(t.Seconds())+1), f}
	}, "(set-option :produce-models true)\n"},
	{"cvc5", func(f string, t time.Duration) []string {
		return []string{"cvc5", fmt.Sprintf("--tlimit=%d", t.Milliseconds()), f}
	}, "(set-option :produce-models true)\n(set-logic ALL)\n"},
	{"z3", func(f string, t time.Duration) []string {
		return []string{"z3", "-smt2", fmt.Sprintf("-T:%d", int(t.Seconds())+1), f}
	}, "(set-option :produce-models true)\n"},
}

// z3-new without the array extensionality axiom: every VC of a function that
// handles several byte strings shares hundreds of (Array Int Int) terms, and
// the quadratic number of extensionality splits dominates the solving time.
// Non-extensional arrays are a weaker theory, so an `unsat` verdict is sound;
// any other verdict of this back end is ignored.
var noExt = solverSpec{"z3-new-noext", func(f string, t time.Duration) []string {
	return []string{"z3-new", "-smt2", fmt.Sprintf("-T:%d", int(t.Seconds())+1), "smt.array.extensional=false", f}
}, "(set-option :produce-models true)\n"}

var fileN int
var fileMu sync.Mutex

func runOne(ctx context.Context, s solverSpec, script string, wantModel bool, timeout time.Duration) Result {
	fileMu.Lock()
	fileN++
	n := fileN
	fileMu.Unlock()
	file := filepath.Join(scratch(), fmt.Sprintf("q%d-%s.smt2", n, s.name))
	trailer := "(check-sat)\n"
	if wantModel {
		trailer += "(get-model)\n"
	}
	if err := os.WriteFile(file, []byte(s.pre+script+trailer), 0o644); err != nil {
		return Result{Status: "error", Output: err.Error()}
	}
	defer os.Remove(file)
	argv := s.argv(file, timeout)
	cctx, cancel := context.WithTimeout(ctx, timeout+2*time.Second)
	defer cancel()
	cmd := exec.CommandContext(cctx, argv[0], argv[1:]...)
	var out bytes.Buffer
	cmd.Stdout = &out
	cmd.Stderr = &out
	start := time.Now()
	_ = cmd.Run()
	el := time.Since(start).Seconds()
	text := out.String()
	// skip solver warnings preceding the verdict
	for strings.HasPrefix(text, "WARNING") {
		i := strings.Index(text, "\n")
		if i < 0 {
			break
		}
		text = text[i+1:]
	}
	first := strings.TrimSpace(strings.SplitN(text, "\n", 2)[0])
	r := Result{Solver: s.name, Time: el, Output: text}
	switch {
	case strings.HasPrefix(first, "(error"):
		r.Status = "error"
	case first == "unsat":
		r.Status = "unsat"
	case first == "sat":
		r.Status = "sat"
		if i := strings.Index(text, "\n"); i >= 0 {
			r.Model = text[i+1:]
		}
	case first == "unknown":
		r.Status = "unknown"
	case strings.Contains(first, "timeout") || cctx.Err() != nil || strings.Contains(text, "interrupted by timeout"):
		r.Status = "timeout"
	default:
		r.Status = "error"
	}
	return r
}

// Solve decides one script. quickFirst: try z3-new alone for a short time
// before racing all back ends.
func Solve(script string, timeout time.Duration) Result {
	ctx := context.Background()
	var tried []string
	first := timeout
	if first > 4*time.Second {
		first = 4 * time.Second
	}
	// quick phase: z3-new with and without array extensionality side by side
	qctx, qcancel := context.WithCancel(ctx)
	qch := make(chan Result, 2)
	go func() { qch <- runOne(qctx, solvers[0], script, true, first) }()
	go func() { qch <- runOne(qctx, noExt, script, false, first) }()
	var r Result
	for i := 0; i < 2; i++ {
		x := <-qch
		tried = append(tried, fmt.Sprintf("%s:%s:%.2fs", x.Solver, x.Status, x.Time))
		if x.Status == "unsat" || (x.Status == "sat" && x.Solver == solvers[0].name) {
			qcancel()
			x.Tried = tried
			return x
		}
		if x.Solver == solvers[0].name {
			r = x
		}
	}
	qcancel()
	// race the portfolio
	rctx, cancel := context.WithCancel(ctx)
	defer cancel()
	ch := make(chan Result, len(solvers)+1)
	n := 0
	for i, s := range solvers {
		if i == 0 && first >= timeout {
			continue
		}
		n++
		go func(s solverSpec) { ch <- runOne(rctx, s, script, true, timeout) }(s)
	}
	if first < timeout {
		n++
		go func() {
			x := runOne(rctx, noExt, script, false, timeout)
			if x.Status == "sat" {
				x.Status = "unknown" // not a verdict of the full theory
			}
			ch <- x
		}()
	}
	last := r
	for i := 0; i < n; i++ {
		x := <-ch
		tried = append(tried, fmt.Sprintf("%s:%s:%.2fs", x.Solver, x.Status, x.Time))
		if x.Status == "unsat" || x.Status == "sat" {
			cancel()
			x.Tried = tried
			return x
		}
		if x.Status != "error" || last.Status == "error" {
			last = x
		}
	}
	last.Tried = tried
	if last.Status == "" {
		last.Status = "unknown"
	}
	return last
}

// AnyUnsat runs every back end (z3-new with several seeds) on the script and
// reports unsat if ANY of them proves it unsatisfiable. Used for the axiom
// consistency canary, where a single lucky refutation is what matters.
func AnyUnsat(script string, timeout time.Duration) Result {
	ctx := context.Background()
	type job struct {
		s    solverSpec
		pre  string
		name string
	}
	var jobs []job
	for _, s := range solvers {
		jobs = append(jobs, job{s, "", s.name})
	}
	for _, seed := range []int{1, 2, 3, 4, 5} {
		jobs = append(jobs, job{solvers[0], fmt.Sprintf("(set-option :smt.random_seed %d)\n(set-option :sat.random_seed %d)\n", seed, seed), fmt.Sprintf("z3-new/seed%d", seed)})
	}
	ch := make(chan Result, len(jobs))
	for _, j := range jobs {
		go func(j job) {
			r := runOne(ctx, j.s, j.pre+script, false, timeout)
			r.Solver = j.name
			ch <- r
		}(j)
	}
	out := Result{Status: "unknown"}
	for range jobs {
		r := <-ch
		out.Tried = append(out.Tried, fmt.Sprintf("%s:%s:%.2fs", r.Solver, r.Status, r.Time))
		if r.Status == "unsat" {
			out.Status, out.Solver, out.Time, out.Output = "unsat", r.Solver, r.Time, r.Output
		} else if out.Status != "unsat" && r.Status == "sat" {
			out.Status, out.Solver, out.Time = "sat", r.Solver, r.Time
		}
	}
	return out
}
