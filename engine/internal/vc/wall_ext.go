package vc

// Extensions used by the wallet-level properties (C20, C09):
//
//  1. call counters (`counter <ghost> <func>`): an Int ghost incremented
//     immediately before every call of the named function. This is pure
//     instrumentation (the same as writing ghost++ before the call): no
//     assumption about the callee is made, and the ghost is part of the
//     computed write effects of every (transitive) caller.
//  2. walletdb.Update / walletdb.View call-through: when the function argument
//     is a closure literal whose contract says `opt callthrough`, the call
//     checks the closure's preconditions, runs the closure once by its
//     contract, and relates the combinator's result to the closure's result.
//  3. errors.Is(err, C) for a typed constant C: the result is named
//     errIsConst(err, typeid(C), C), so that contracts can speak about it.

import (
	"fmt"
	"go/constant"
	"go/types"
	"sort"

	"golang.org/x/tools/go/ssa"

	"govc/internal/spec"
)

const walletdbPath = "github.com/btcsuite/btcwallet/walletdb"

//  4. lock frame: the ghost `held` (sync.spec) changes only at the address of
//     the mutex a Lock/Unlock is applied to. Effect summaries record, per
//     function, the field indices of the mutex fields that may be locked or
//     unlocked (transitively); at a call the entries of `held` at addresses
//     with any other field index are known to be unchanged.

const lockGhost = "held"

type lockSites struct {
	idx map[int]bool // field indices k of mutexes addressed as &x.f (address term fld(x, k))
	all bool         // some lock operation on a mutex that is not addressed as a field
}

func (l *lockSites) merge(o lockSites) {
	if o.all {
		l.all = true
	}
	for k := range o.idx {
		if l.idx == nil {
			l.idx = map[int]bool{}
		}
		l.idx[k] = true
	}
}

func lockGhostKey(u *Universe, p *Program) string {
	if p.Specs == nil {
		return ""
	}
	srt, ok := p.Specs.Ghosts[lockGhost]
	if !ok {
		return ""
	}
	return u.GhostComp(lockGhost, srt)
}

// isLockOp: the sync operations whose trusted contracts update `held` at their receiver.
func isLockOp(fn *ssa.Function) bool {
	switch FuncKey(fn) {
	case "sync::(*Mutex).Lock", "sync::(*Mutex).Unlock", "sync::(*RWMutex).Lock", "sync::(*RWMutex).Unlock":
		return true
	}
	return false
}

func lockSiteOf(args []ssa.Value) lockSites {
	if len(args) > 0 {
		if fa, ok := args[0].(*ssa.FieldAddr); ok {
			return lockSites{idx: map[int]bool{fa.Field: true}}
		}
	}
	return lockSites{all: true}
}

// assumeLockFrame: after a call whose effects on `held` are confined to the
// mutex fields in ls, every other entry of `held` is unchanged.
func (g *Gen) assumeLockFrame(pre, post *State, ls lockSites) {
	k := lockGhostKey(g.u, g.prog)
	if k == "" || ls.all || pre == post {
		return
	}
	a, b := g.read(pre, k), g.read(post, k)
	if a == b {
		return
	}
	cond := "true"
	var idxs []int
	for i := range ls.idx {
		idxs = append(idxs, i)
	}
	sort.Ints(idxs)
	for _, i := range idxs {
		cond = fmt.Sprintf("(and %s (not (= (fld.idx m!l) %d)))", cond, i)
	}
	g.assert(fmt.Sprintf("(forall ((m!l Int)) (! (=> %s (= (select %s m!l) (select %s m!l))) :pattern ((select %s m!l))))", cond, b, a, b))
	g.abstractedOnce("lock-frame: a call changes the lock ghost `held` only at mutexes addressed as struct fields that the callee (transitively) locks or unlocks")
}

// ifaceKey: counter key of an interface method ("<pkg>::iface T.M").
func ifaceKey(m *types.Func) string {
	sig, ok := m.Type().(*types.Signature)
	if !ok || sig.Recv() == nil {
		return ""
	}
	n := namedOf(sig.Recv().Type())
	if n == nil || n.Obj().Pkg() == nil {
		return ""
	}
	return n.Obj().Pkg().Path() + "::iface " + n.Obj().Name() + "." + m.Name()
}

func (p *Program) counterComps(u *Universe, key string, out map[string]bool) {
	if key == "" || p.Specs == nil {
		return
	}
	for _, gh := range p.Specs.Counters[key] {
		out[u.GhostComp(gh, "Int")] = true
	}
	for _, gh := range p.Specs.OkCounters[key] {
		out[u.GhostComp(gh, "Int")] = true
	}
}

// bumpOkCounters increments the success counters of function key after a call
// whose error result (last result) is nil.
func (g *Gen) bumpOkCounters(key string, v ssa.Value, st *State) *State {
	ghs := g.prog.Specs.OkCounters[key]
	if len(ghs) == 0 || st == nil {
		return st
	}
	var errT Term
	if v != nil {
		if tup := g.tuples[v]; len(tup) > 0 {
			errT = tup[len(tup)-1]
		} else {
			errT = g.vals[v]
		}
	}
	if errT == "" {
		g.fail("okcounter on a call of %s whose result is not available (deferred call?)", key)
	}
	for _, gh := range ghs {
		k := g.u.GhostComp(gh, "Int")
		old := g.read(st, k)
		st = g.update(st, k, fmt.Sprintf("(ite (= %s nil.iface) (+ %s 1) %s)", errT, old, old))
	}
	return st
}

// bumpCounters increments the call counters attached to function key.
func (g *Gen) bumpCounters(key string, st *State) *State {
	if key == "" {
		return st
	}
	for _, gh := range g.prog.Specs.Counters[key] {
		k := g.u.GhostComp(gh, "Int")
		st = g.update(st, k, fmt.Sprintf("(+ %s 1)", g.read(st, k)))
	}
	return st
}

// updateCallThrough: walletdb.Update(db, f) / walletdb.View(db, f) with a
// closure literal f whose contract carries `opt callthrough`.
//
// Assumed behaviour of the combinator (walletdb over bbolt): f is run exactly
// once, in the state of the call, on a fresh non-nil transaction; in-memory
// effects of f persist; if f returns an error so does the combinator; after an
// error the database ghosts are unknown (rolled back); the combinator's own
// trusted postconditions hold.
func (g *Gen) updateCallThrough(v ssa.Value, fn *ssa.Function, args []ssa.Value, st *State) (*State, bool) {
	key := FuncKey(fn)
	if key != walletdbPath+"::Update" && key != walletdbPath+"::View" {
		return nil, false
	}
	if len(args) != 2 {
		return nil, false
	}
	mc, _ := args[1].(*ssa.MakeClosure)
	if mc == nil {
		mc = g.clos[args[1]]
	}
	if mc == nil {
		return nil, false
	}
	cfn := mc.Fn.(*ssa.Function)
	ccon := g.prog.ContractFor(cfn)
	if ccon == nil || ccon.Inline || !hasOpt(ccon, "callthrough") || len(cfn.Params) != 1 {
		return nil, false
	}
	r := g.reach[g.curBlock]
	st0 := st
	// the transaction handed to the closure
	txT := cfn.Params[0].Type()
	tx := g.fresh("dbtx", g.u.SortOf(txT))
	g.assert(g.u.rangeFact(tx, txT, g.top(st)))
	if g.u.SortOf(txT) == "Iface" {
		g.assert(fmt.Sprintf("(not (= %s nil.iface))", tx))
	}
	argTV := []TV{{tx, g.u.SortOf(txT), txT}}
	fv := map[string]TV{}
	for i, f := range cfn.FreeVars {
		et := deref(f.Type())
		if pl := g.places[mc.Bindings[i]]; pl != nil {
			fv[f.Name()] = TV{g.load(st, pl), g.u.SortOf(et), et}
			continue
		}
		fv["&"+f.Name()] = TV{g.val(mc.Bindings[i]), "Int", f.Type()}
	}
	st = g.bumpCounters(FuncKey(cfn), st)
	mid, res := g.applyContractRes(nil, ccon, cfn.Signature, argTV, fv, st, displayName(cfn), nil)
	if len(res) != 1 {
		g.fail("call-through closure %s must return exactly an error", displayName(cfn))
	}
	ferr := res[0]
	ures := g.havocResults(fn.Name(), fn.Signature, mid)
	uerr := ures[0]
	g.assert(fmt.Sprintf("(=> %s (=> (not (= %s nil.iface)) (not (= %s nil.iface))))", g.guarded(r), ferr, uerr))
	// rollback after an error: database ghosts unknown
	db := map[string]bool{}
	for _, n := range []string{"DBlive", "DBhas", "DBval", "DBseq"} {
		if srt, ok := g.prog.Specs.Ghosts[n]; ok {
			db[g.u.GhostComp(n, srt)] = true
		}
	}
	failed := g.havocSet(mid, db, "rb")
	post := g.joinStates([]*State{failed, mid}, []Term{
		fmt.Sprintf("(and %s (not (= %s nil.iface)))", r, uerr),
		fmt.Sprintf("(and %s (= %s nil.iface))", r, uerr)})
	// the combinator's own trusted postconditions (old = state of the call)
	if ucon := g.prog.ContractFor(fn); ucon != nil {
		g.assumed[ucon.Pkg+"::"+ucon.Name] = true
		// The combinator's own postconditions speak about ghosts (its call
		// log); those that the closure does not itself modify are unknown up
		// to these postconditions. All other effects are the closure's.
		cm, _ := g.contractMods(ccon, nil)
		names := map[string]bool{}
		for _, e := range ucon.Ensures {
			spec.Idents(e.Expr, names)
		}
		own := map[string]bool{}
		for n := range names {
			if srt, ok := g.prog.Specs.Ghosts[n]; ok {
				if k := g.u.GhostComp(n, srt); !cm[k] {
					own[k] = true
				}
			}
		}
		post = g.havocSet(post, own, "u")
		env := &Env{g: g, vars: map[string]TV{}, cur: post, old: st0, callee: true, pkg: ucon.Pkg}
		for i, pn := range ucon.Params {
			if pn != "_" && i < len(args) {
				env.vars[pn] = TV{g.val(args[i]), g.u.SortOf(args[i].Type()), args[i].Type()}
			}
		}
		rt := resultTypes(fn.Signature)[0]
		for i, rn := range ucon.Results {
			if i == 0 && rn != "_" {
				env.vars[rn] = TV{uerr, g.u.SortOf(rt), rt}
			}
		}
		env.vars["result"] = TV{uerr, g.u.SortOf(rt), rt}
		if _, bound := env.vars["err"]; !bound {
			env.vars["err"] = TV{uerr, g.u.SortOf(rt), rt}
		}
		for _, e := range ucon.Ensures {
			t := g.evalBool(env, e.Expr, e.Src)
			g.assert(fmt.Sprintf("(=> %s %s)", g.guarded(r), t))
		}
	}
	g.assumed["walletdb::"+fn.Name()+" call-through (runs its closure exactly once; an error of the closure is returned; database ghosts unknown after an error)"] = true
	g.bindResults(v, ures)
	return post, true
}

const errIsConstDecl = "(declare-fun f.errIsConst (Iface Int Int) Bool)"

// typedIntConst: a constant of a named integer type -> (type id, value).
func (g *Gen) typedIntConst(v ssa.Value) (int, string, bool) {
	c, ok := v.(*ssa.Const)
	if !ok || c.Value == nil || c.Value.Kind() != constant.Int {
		return 0, "", false
	}
	if _, named := types.Unalias(c.Type()).(*types.Named); !named {
		return 0, "", false
	}
	return g.u.TypeID(c.Type()), c.Value.ExactString(), true
}

// errorsIsConst: errors.Is(err, C) with C a typed integer constant (e.g. the
// chain.RPCErr codes). The usual trusted contract is applied, and the result
// is additionally named errIsConst(err, typeid, value): errors.Is is a
// function of the error value and the target (errors are immutable).
func (g *Gen) errorsIsConst(v ssa.Value, fn *ssa.Function, args []ssa.Value, st *State) (*State, bool) {
	if FuncKey(fn) != "errors::Is" || len(args) != 2 || v == nil {
		return nil, false
	}
	mi, ok := args[1].(*ssa.MakeInterface)
	if !ok {
		return nil, false
	}
	tid, val, ok := g.typedIntConst(mi.X)
	if !ok {
		return nil, false
	}
	con := g.prog.ContractFor(fn)
	if con == nil {
		return nil, false
	}
	post := g.applyContract(v, con, fn.Signature, args, st, displayName(fn))
	g.u.Extra(errIsConstDecl)
	g.assert(fmt.Sprintf("(=> %s (= %s (f.errIsConst %s %d %s)))", g.reach[g.curBlock], g.vals[v], g.val(args[0]), tid, val))
	g.assumed["errors::Is(err, typed constant) named errIsConst(err, type, value) (function of the error value)"] = true
	return post, true
}
