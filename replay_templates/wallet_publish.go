package wallet

// Replay scenarios for the publish-path obligations (C20): a funded wallet
// creates and signs a spend, then PublishTransaction is driven against a
// backend that answers in each class. After an error return the transaction
// must be forgotten (no unconfirmed record, the spent coin spendable again);
// "already in mempool" and "accepted" keep it recorded; "already known" removes
// it and reports success.

import (
	"errors"
	"fmt"
	"testing"

	"github.com/btcsuite/btcd/btcutil"
	"github.com/btcsuite/btcd/chaincfg/chainhash"
	"github.com/btcsuite/btcd/txscript"
	"github.com/btcsuite/btcd/wire"
	"github.com/btcsuite/btcwallet/chain"
	"github.com/btcsuite/btcwallet/waddrmgr"
	"github.com/btcsuite/btcwallet/walletdb"
)

type govcBackend struct {
	*mockChainClient
	notifyErr error
	sendErr   error
	sent      int
}

func (b *govcBackend) NotifyReceived([]btcutil.Address) error { return b.notifyErr }

func (b *govcBackend) SendRawTransaction(*wire.MsgTx, bool) (*chainhash.Hash, error) {
	b.sent++
	return nil, b.sendErr
}

type govcView struct {
	unmined int
	unspent map[wire.OutPoint]int64
}

func govcSnapshot(t *testing.T, w *Wallet) govcView {
	v := govcView{unspent: map[wire.OutPoint]int64{}}
	err := walletdb.View(w.db, func(tx walletdb.ReadTx) error {
		ns := tx.ReadBucket(wtxmgrNamespaceKey)
		um, err := w.TxStore.UnminedTxs(ns)
		if err != nil {
			return err
		}
		v.unmined = len(um)
		us, err := w.TxStore.UnspentOutputs(ns)
		if err != nil {
			return err
		}
		for _, c := range us {
			v.unspent[c.OutPoint] = int64(c.Amount)
		}
		return nil
	})
	if err != nil {
		t.Fatalf("snapshot: %v", err)
	}
	return v
}

func govcSameUnspent(a, b map[wire.OutPoint]int64) bool {
	if len(a) != len(b) {
		return false
	}
	for k, v := range a {
		if w, ok := b[k]; !ok || w != v {
			return false
		}
	}
	return true
}

func TestGovcReplay(t *testing.T) {
	_ = govcModel(t)
	type scenario struct {
		name       string
		notifyErr  error
		sendErr    error
		wantErr    bool
		wantKept   bool // the transaction stays recorded as unconfirmed
		wantSent   int
	}
	rejected := errors.New("rejected by the backend")
	scenarios := []scenario{
		{"accepted", nil, nil, false, true, 1},
		{"already in mempool", nil, chain.ErrTxAlreadyInMempool, false, true, 1},
		{"already known", nil, chain.ErrTxAlreadyKnown, false, false, 1},
		{"already confirmed", nil, chain.ErrTxAlreadyConfirmed, false, false, 1},
		{"rejected", nil, rejected, true, false, 1},
		{"notification-subscription failure", errors.New("subscription failed"), nil, true, false, 0},
	}
	bad := 0
	for _, sc := range scenarios {
		w, cleanup := testWallet(t)
		keyScope := waddrmgr.KeyScopeBIP0084
		addr, err := w.CurrentAddress(0, keyScope)
		if err != nil {
			t.Fatalf("address: %v", err)
		}
		script, err := txscript.PayToAddrScript(addr)
		if err != nil {
			t.Fatalf("script: %v", err)
		}
		incoming := &wire.MsgTx{TxIn: []*wire.TxIn{{}}, TxOut: []*wire.TxOut{wire.NewTxOut(100000, script)}}
		addUtxo(t, w, incoming)
		before := govcSnapshot(t, w)
		atx, err := w.txToOutputs([]*wire.TxOut{{PkScript: script, Value: 10000}}, nil, nil, 0, 1, 1000,
			CoinSelectionLargest, false, nil, alwaysAllowUtxo)
		if err != nil {
			t.Fatalf("create tx: %v", err)
		}
		be := &govcBackend{mockChainClient: &mockChainClient{}, notifyErr: sc.notifyErr, sendErr: sc.sendErr}
		w.chainClient = be
		perr := w.PublishTransaction(atx.Tx, "")
		after := govcSnapshot(t, w)
		if (perr != nil) != sc.wantErr {
			fmt.Printf("%s: PublishTransaction returned %v, want error=%v\n", sc.name, perr, sc.wantErr)
			bad++
		}
		if sc.name == "rejected" && perr != rejected {
			fmt.Printf("%s: returned %v, want the backend's error\n", sc.name, perr)
			bad++
		}
		if be.sent != sc.wantSent {
			fmt.Printf("%s: backend received %d sends, want %d\n", sc.name, be.sent, sc.wantSent)
			bad++
		}
		if sc.wantKept {
			if after.unmined != 1 {
				fmt.Printf("%s: %d unconfirmed records, want the published transaction to stay recorded once\n", sc.name, after.unmined)
				bad++
			}
		} else {
			if after.unmined != 0 {
				fmt.Printf("%s: PublishTransaction returned err=%v but the transaction is still recorded as unconfirmed (%d records)\n", sc.name, perr, after.unmined)
				bad++
			}
			if !govcSameUnspent(before.unspent, after.unspent) {
				fmt.Printf("%s: spendable outputs differ from before the attempt: before %v after %v\n", sc.name, before.unspent, after.unspent)
				bad++
			}
		}
		cleanup()
	}
	if bad > 0 {
		fmt.Printf("REPLAY-VIOLATION %d expectations of the publish path violated\n", bad)
		return
	}
	fmt.Println("REPLAY-OK")
}
