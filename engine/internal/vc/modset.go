package vc

import (
	"fmt"
	"go/types"
	"os"
	"strings"

	"govc/internal/spec"

	"golang.org/x/tools/go/ssa"
)

// effects is the write-effect summary of a function or of one call:
// heap components / ghost variables that may change wherever they are
// (comps), plus "writes through" effects attached to a pointer/slice/map
// value (the i-th parameter in a summary, an argument value at a call).
// A write into memory the function allocated itself is no effect for its
// callers (their pre-existing heap is untouched); it is, of course, an effect
// inside the function itself, so the exemption is applied only when a call's
// effects are folded into the summary of the enclosing function.
type effects struct {
	comps  map[string]bool
	params map[int]bool // summaries: parameters written through
	all    bool
	locks  lockSites // which mutexes (by field index) may be locked / unlocked
}

type callEffects struct {
	comps   map[string]bool
	written []ssa.Value // argument values whose pointee may be written
	all     bool
	locks   lockSites
}

var sumCache = map[*ssa.Function]*effects{}
var sumVisiting = map[*ssa.Function]bool{}

// rootValue walks an address/slice expression to the value it is derived from.
func rootValue(v ssa.Value) ssa.Value {
	for i := 0; i < 32; i++ {
		switch x := v.(type) {
		case *ssa.Slice:
			v = x.X
		case *ssa.IndexAddr:
			v = x.X
		case *ssa.FieldAddr:
			v = x.X
		case *ssa.ChangeType:
			v = x.X
		case *ssa.Convert:
			if _, ok := types.Unalias(x.Type()).Underlying().(*types.Pointer); !ok {
				return v
			}
			v = x.X
		default:
			return v
		}
	}
	return v
}

// freshRoot: the addressed memory was allocated by the current function on
// every path (Alloc / MakeSlice / nil, through slicing, indexing, field
// selection, append results and phis of such values).
func freshRoot(v ssa.Value) bool {
	return isFresh(v, map[ssa.Value]bool{})
}

func isFresh(v ssa.Value, seen map[ssa.Value]bool) bool {
	if seen[v] {
		return true // cycle through a phi: decided by the other edges
	}
	seen[v] = true
	switch x := v.(type) {
	case *ssa.Alloc, *ssa.MakeSlice, *ssa.MakeMap:
		return true
	case *ssa.Const:
		return x.Value == nil // nil slice / pointer: no memory
	case *ssa.Slice:
		return isFresh(x.X, seen)
	case *ssa.IndexAddr:
		return isFresh(x.X, seen)
	case *ssa.FieldAddr:
		return isFresh(x.X, seen)
	case *ssa.ChangeType:
		return isFresh(x.X, seen)
	case *ssa.Convert:
		if _, ok := types.Unalias(x.Type()).Underlying().(*types.Pointer); !ok {
			_, isSlice := types.Unalias(x.Type()).Underlying().(*types.Slice)
			return isSlice // []byte(string) allocates
		}
		return isFresh(x.X, seen)
	case *ssa.Phi:
		for _, e := range x.Edges {
			if !isFresh(e, seen) {
				return false
			}
		}
		return true
	case *ssa.Call:
		if b, ok := x.Call.Value.(*ssa.Builtin); ok && b.Name() == "append" {
			return isFresh(x.Call.Args[0], seen)
		}
	}
	return false
}

func paramIndex(fn *ssa.Function, v ssa.Value) int {
	if p, ok := rootValue(v).(*ssa.Parameter); ok {
		for i, q := range fn.Params {
			if q == p {
				return i
			}
		}
	}
	return -1
}

// summary computes the effect summary of a function with a body.
func (p *Program) summary(u *Universe, fn *ssa.Function) *effects {
	if e, ok := sumCache[fn]; ok {
		return e
	}
	if sumVisiting[fn] {
		return &effects{comps: map[string]bool{}, params: map[int]bool{}}
	}
	sumVisiting[fn] = true
	defer delete(sumVisiting, fn)
	e := &effects{comps: map[string]bool{}, params: map[int]bool{}}
	writeThrough := func(v ssa.Value) {
		if freshRoot(v) {
			return
		}
		if i := paramIndex(fn, v); i >= 0 {
			e.params[i] = true
			return
		}
		argModsU(u, v, e.comps)
	}
	dbg := os.Getenv("GOVC_DEBUG_MOD")
	for _, b := range fn.Blocks {
		for _, in := range b.Instrs {
			before := dbg != "" && e.comps[dbg]
			_ = before
			switch x := in.(type) {
			case *ssa.Store:
				if freshRoot(x.Addr) {
					continue
				}
				if i := paramIndex(fn, x.Addr); i >= 0 {
					e.params[i] = true
					continue
				}
				storeModsU(u, x.Addr, e.comps)
			case *ssa.MapUpdate:
				writeThrough(x.Map)
			case *ssa.Alloc, *ssa.MakeSlice, *ssa.MakeMap, *ssa.MakeInterface, *ssa.MakeChan:
				e.comps[TopKey] = true
			case *ssa.Convert:
				if _, ok := types.Unalias(x.Type()).Underlying().(*types.Slice); ok {
					e.comps[TopKey] = true
				}
			case ssa.CallInstruction:
				ce := p.callEffects(u, x.Common(), fn)
				if ce.all {
					e.all = true
				}
				e.locks.merge(ce.locks)
				for k := range ce.comps {
					e.comps[k] = true
				}
				for _, w := range ce.written {
					writeThrough(w)
				}
			case *ssa.MakeClosure:
				// the closure may run later in this function or in a callee
				ce := p.summary(u, x.Fn.(*ssa.Function))
				e.locks.merge(ce.locks)
				if ce.all {
					e.all = true
				}
				for k := range ce.comps {
					e.comps[k] = true
				}
			}
			if dbg != "" && !before && e.comps[dbg] {
				fmt.Fprintf(os.Stderr, "MODDEBUG   first added by: %s  [%s]\n", in.String(), fn.Name())
			}
		}
	}
	if dbg := os.Getenv("GOVC_DEBUG_MOD"); dbg != "" && e.comps[dbg] {
		fmt.Fprintf(os.Stderr, "MODDEBUG %s has %s\n", fn.String(), dbg)
	}
	if len(sumVisiting) == 1 {
		sumCache[fn] = e
	}
	return e
}

// ModSet: components a call to fn may change as seen by an arbitrary caller
// (parameter write-throughs resolved by parameter type).
func (p *Program) ModSet(u *Universe, fn *ssa.Function) (map[string]bool, bool) {
	e := p.summary(u, fn)
	m := copySet(e.comps)
	for i := range e.params {
		argModsU(u, fn.Params[i], m)
	}
	return m, e.all
}

func copySet(m map[string]bool) map[string]bool {
	o := make(map[string]bool, len(m))
	for k := range m {
		o[k] = true
	}
	return o
}

// contractComps resolves the non-parameter part of a contract's frame.
// ok=false: the contract says nothing (use the body's summary if there is one).
func (p *Program) contractComps(u *Universe, con *spec.FuncContract) (comps map[string]bool, all bool, ok bool) {
	if con.Pure {
		return map[string]bool{}, false, true
	}
	if !con.HasMod && !con.HasWrites {
		return nil, false, false
	}
	g := &Gen{prog: p, u: u, shared: &shared{declared: map[string]bool{}, ordinals: map[string]int{}, usedClauses: map[string]bool{}}}
	comps = map[string]bool{TopKey: true}
	func() {
		defer func() {
			if r := recover(); r != nil {
				if _, isGen := r.(genError); isGen {
					all = true
					return
				}
				panic(r)
			}
		}()
		env := &Env{g: g, vars: map[string]TV{}, pkg: con.Pkg, src: con.Src}
		for _, m := range con.Modifies {
			switch {
			case m == "*":
				all = true
			case m == "nothing":
			case strings.HasPrefix(m, "@"):
				if con.HasWrites {
					continue // heap effects come from the writes list
				}
				ex, err := spec.ParseExpr(m)
				if err != nil {
					all = true
					continue
				}
				comps[g.heapRefKey(env, ex.(*spec.HeapRef))] = true
			default:
				if srt, isGhost := p.Specs.Ghosts[m]; isGhost {
					comps[u.GhostComp(m, srt)] = true
				} else {
					all = true
				}
			}
		}
	}()
	return comps, all, true
}

// contractEffects: effects of a call governed by contract con (args include
// the receiver for methods / interface methods). fn is the callee when static.
func (p *Program) contractEffects(u *Universe, con *spec.FuncContract, fn *ssa.Function, args []ssa.Value) *callEffects {
	ce := &callEffects{comps: map[string]bool{TopKey: true}}
	comps, all, ok := p.contractComps(u, con)
	if ok {
		for k := range comps {
			ce.comps[k] = true
		}
		ce.all = all
		if comps[lockGhostKey(u, p)] || all {
			// explicit frame naming the lock ghost: which mutex is not known here
			// (the lock operations themselves are recognised in callEffects)
			ce.locks.all = true
		}
		if con.HasWrites {
			for _, w := range con.Writes {
				for i, pn := range con.Params {
					if pn == w && i < len(args) {
						ce.written = append(ce.written, args[i])
					}
				}
			}
		}
	} else if fn != nil && len(fn.Blocks) > 0 {
		// no explicit frame: the computed effect summary of the body (also for
		// trusted contracts on in-repo functions: only their clauses are assumed)
		e := p.summary(u, fn)
		for k := range e.comps {
			ce.comps[k] = true
		}
		ce.all = e.all
		ce.locks.merge(e.locks)
		for i := range e.params {
			if i < len(args) {
				ce.written = append(ce.written, args[i])
			}
		}
	}
	// `opt stores_fn`: the callee only stores its func-typed arguments (e.g. a commit hook
	// registration) and does not run them during the call
	if _, stores := con.Opts["stores_fn"]; !con.Pure && !stores {
		p.closureArgEffects(u, args, ce)
	}
	return ce
}

// closure literals passed as arguments may be run by the callee
func (p *Program) closureArgEffects(u *Universe, args []ssa.Value, ce *callEffects) {
	for _, a := range args {
		if mc, ok := a.(*ssa.MakeClosure); ok {
			p.counterComps(u, FuncKey(mc.Fn.(*ssa.Function)), ce.comps)
			e := p.summary(u, mc.Fn.(*ssa.Function))
			if e.all {
				ce.all = true
			}
			ce.locks.merge(e.locks)
			for k := range e.comps {
				ce.comps[k] = true
			}
		}
	}
}

// callEffects: effects of one call instruction.
func (p *Program) callEffects(u *Universe, c *ssa.CallCommon, caller *ssa.Function) *callEffects {
	ce := &callEffects{comps: map[string]bool{}}
	pointerArgs := func(args []ssa.Value) {
		ce.comps[TopKey] = true
		for _, a := range args {
			switch types.Unalias(a.Type()).Underlying().(type) {
			case *types.Slice, *types.Pointer, *types.Map:
				ce.written = append(ce.written, a)
			}
		}
	}
	if c.IsInvoke() {
		args := append([]ssa.Value{c.Value}, c.Args...)
		if con := p.IfaceContract(c.Method); con != nil {
			ce2 := p.contractEffects(u, con, nil, args)
			p.counterComps(u, ifaceKey(c.Method), ce2.comps)
			return ce2
		}
		pointerArgs(c.Args)
		p.closureArgEffects(u, c.Args, ce)
		p.counterComps(u, ifaceKey(c.Method), ce.comps)
		return ce
	}
	var fn *ssa.Function
	switch x := c.Value.(type) {
	case *ssa.Builtin:
		switch x.Name() {
		case "append", "copy":
			ce.comps[TopKey] = true
			ce.written = append(ce.written, c.Args[0])
		case "delete":
			ce.written = append(ce.written, c.Args[0])
		}
		return ce
	case *ssa.Function:
		fn = x
	case *ssa.MakeClosure:
		fn = x.Fn.(*ssa.Function)
	default:
		// dynamic call: parameter / field contract, else argument-reachable memory
		if caller != nil {
			name := ""
			switch y := c.Value.(type) {
			case *ssa.Parameter:
				name = y.Name()
			case *ssa.UnOp:
				if fv, ok := y.X.(*ssa.FreeVar); ok {
					name = fv.Name()
				}
				if fa, ok := y.X.(*ssa.FieldAddr); ok {
					if n := namedOf(deref(fa.X.Type())); n != nil && n.Obj().Pkg() != nil {
						si := u.StructOf(deref(fa.X.Type()))
						if con := p.Specs.Contracts[n.Obj().Pkg().Path()+"::field "+n.Obj().Name()+"."+si.Fields[fa.Field].Name]; con != nil {
							return p.contractEffects(u, con, nil, c.Args)
						}
					}
				}
			case *ssa.Field:
				if n := namedOf(y.X.Type()); n != nil && n.Obj().Pkg() != nil {
					si := u.StructOf(y.X.Type())
					if con := p.Specs.Contracts[n.Obj().Pkg().Path()+"::field "+n.Obj().Name()+"."+si.Fields[y.Field].Name]; con != nil {
						return p.contractEffects(u, con, nil, c.Args)
					}
				}
			}
			if name != "" {
				if con := p.Specs.Contracts[FuncKey(caller)+"@"+name]; con != nil {
					return p.contractEffects(u, con, nil, c.Args)
				}
			}
		}
		pointerArgs(c.Args)
		return ce
	}
	if isModelled(fn) {
		pointerArgs(c.Args)
		return ce
	}
	if isLockOp(fn) {
		if con := p.ContractFor(fn); con != nil {
			ce2 := p.contractEffects(u, con, fn, c.Args)
			ce2.locks = lockSiteOf(c.Args)
			return ce2
		}
	}
	if con := p.ContractFor(fn); con != nil {
		ce2 := p.contractEffects(u, con, fn, c.Args)
		p.counterComps(u, FuncKey(fn), ce2.comps)
		return ce2
	}
	p.counterComps(u, FuncKey(fn), ce.comps)
	for k := range p.modelGhosts(u, fn) {
		ce.comps[k] = true
	}
	if len(fn.Blocks) > 0 {
		e := p.summary(u, fn)
		for k := range e.comps {
			ce.comps[k] = true
		}
		ce.all = e.all
		ce.locks.merge(e.locks)
		for i := range e.params {
			if i < len(c.Args) {
				ce.written = append(ce.written, c.Args[i])
			}
		}
		p.closureArgEffects(u, c.Args, ce)
		return ce
	}
	pointerArgs(c.Args)
	return ce
}

// resolve turns call effects into the set of components to havoc at a call
// site inside the function under verification (no freshness exemption there).
func (ce *callEffects) resolve(u *Universe) (map[string]bool, bool) {
	m := copySet(ce.comps)
	for _, w := range ce.written {
		argModsU(u, w, m)
	}
	return m, ce.all
}

// callMods: components a call may write, as seen inside the calling function.
func (p *Program) callMods(u *Universe, c *ssa.CallCommon, caller *ssa.Function) (map[string]bool, bool) {
	return p.callEffects(u, c, caller).resolve(u)
}

func typeCompsU(u *Universe, t types.Type, mods map[string]bool) {
	switch x := types.Unalias(t).Underlying().(type) {
	case *types.Struct:
		structCompsU(u, t, mods)
	case *types.Array:
		mods[u.ElemComp(x.Elem())] = true
	default:
		mods[u.CellComp(t)] = true
	}
}

func structCompsU(u *Universe, t types.Type, out map[string]bool) {
	si := u.StructOf(t)
	for i, f := range si.Fields {
		switch x := types.Unalias(f.Type).Underlying().(type) {
		case *types.Struct:
			structCompsU(u, f.Type, out)
		case *types.Array:
			out[u.ElemComp(x.Elem())] = true
		default:
			out[u.FieldComp(t, i)] = true
		}
	}
}

func argModsU(u *Universe, a ssa.Value, mods map[string]bool) {
	switch a.(type) {
	case *ssa.FieldAddr, *ssa.IndexAddr, *ssa.Global:
		storeModsU(u, a, mods)
		return
	}
	switch t := types.Unalias(a.Type()).Underlying().(type) {
	case *types.Slice:
		mods[u.ElemComp(t.Elem())] = true
	case *types.Pointer:
		typeCompsU(u, t.Elem(), mods)
	case *types.Map:
		d, vv := u.MapComps(t)
		mods[d], mods[vv] = true, true
	}
}

// rootOf walks FieldAddr/IndexAddr chains to the base address value.
func rootOf(addr ssa.Value) ssa.Value {
	for {
		switch x := addr.(type) {
		case *ssa.FieldAddr:
			addr = x.X
		case *ssa.IndexAddr:
			if _, ok := types.Unalias(x.X.Type()).Underlying().(*types.Pointer); ok {
				addr = x.X
			} else {
				return addr
			}
		default:
			return addr
		}
	}
}

// storeModsU: components a store through addr may change.
func storeModsU(u *Universe, addr ssa.Value, mods map[string]bool) {
	if gl, ok := rootOf(addr).(*ssa.Global); ok {
		et := deref(gl.Type())
		mods[u.GlobalComp(gl.Pkg.Pkg.Path(), gl.Name(), et)] = true
		return
	}
	switch x := addr.(type) {
	case *ssa.FieldAddr:
		st := deref(x.X.Type())
		si := u.StructOf(st)
		ft := si.Fields[x.Field].Type
		// field of a by-value element (path inside a row)?
		if ia, ok := rootOf(x.X).(*ssa.IndexAddr); ok {
			if sl, ok := types.Unalias(ia.X.Type()).Underlying().(*types.Slice); ok {
				mods[u.ElemComp(sl.Elem())] = true
			}
		}
		if isAggregate(ft) {
			typeCompsU(u, ft, mods)
		} else {
			mods[u.FieldComp(st, x.Field)] = true
		}
	case *ssa.IndexAddr:
		switch t := types.Unalias(x.X.Type()).Underlying().(type) {
		case *types.Slice:
			mods[u.ElemComp(t.Elem())] = true
		case *types.Pointer:
			at := types.Unalias(t.Elem()).Underlying().(*types.Array)
			mods[u.ElemComp(at.Elem())] = true
			// array inside a by-value row element
			if ia, ok := rootOf(x.X).(*ssa.IndexAddr); ok {
				if sl, ok := types.Unalias(ia.X.Type()).Underlying().(*types.Slice); ok {
					mods[u.ElemComp(sl.Elem())] = true
				}
			}
		}
	default:
		typeCompsU(u, deref(addr.Type()), mods)
	}
}

var mutGlobals map[string]bool

// mutableGlobals: package-level variables of loaded /repo packages written
// outside package initialisation.
func (p *Program) mutableGlobals() map[string]bool {
	if mutGlobals != nil {
		return mutGlobals
	}
	mutGlobals = map[string]bool{}
	u := NewUniverse()
	for path, done := range p.built {
		if !done {
			continue
		}
		sp := p.SSA.Package(p.Pkgs[path].Types)
		var visit func(f *ssa.Function)
		visit = func(f *ssa.Function) {
			if f.Name() == "init" || strings.HasPrefix(f.Name(), "init#") {
				return
			}
			for _, b := range f.Blocks {
				for _, in := range b.Instrs {
					if st, ok := in.(*ssa.Store); ok {
						if gl, ok := rootOf(st.Addr).(*ssa.Global); ok {
							mutGlobals[u.GlobalComp(gl.Pkg.Pkg.Path(), gl.Name(), deref(gl.Type()))] = true
						}
					}
				}
			}
			for _, a := range f.AnonFuncs {
				visit(a)
			}
		}
		for _, m := range sp.Members {
			switch x := m.(type) {
			case *ssa.Function:
				visit(x)
			case *ssa.Type:
				for _, t := range []types.Type{x.Type(), types.NewPointer(x.Type())} {
					ms := p.SSA.MethodSets.MethodSet(t)
					for i := 0; i < ms.Len(); i++ {
						if f := p.SSA.MethodValue(ms.At(i)); f != nil {
							visit(f)
						}
					}
				}
			}
		}
	}
	return mutGlobals
}


// modelGhosts: the ghost components that model fn's package, when fn is a
// function of a dependency (not of /repo) that has no contract of its own.
func (p *Program) modelGhosts(u *Universe, fn *ssa.Function) map[string]bool {
	if fn == nil || fn.Pkg == nil || p.InRepo(fn.Pkg.Pkg.Path()) {
		return nil
	}
	var out map[string]bool
	for gh, pk := range p.Specs.GhostPkg {
		if pk != "" && pk == fn.Pkg.Pkg.Path() {
			if out == nil {
				out = map[string]bool{}
			}
			out[u.GhostComp(gh, p.Specs.Ghosts[gh])] = true
		}
	}
	return out
}
