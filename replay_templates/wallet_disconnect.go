package wallet

// Replay scenario for the disconnectBlock / connectBlock obligations (C15):
// connect blocks A1..A5, disconnect A5 and then A4 (a reorg of depth 2). After
// each matching disconnect the synced-to stamp must be the parent block with
// the hash the wallet remembered for it, and that remembered hash must be
// unchanged; a stale disconnect (unknown sibling) must change nothing.

import (
	"encoding/binary"
	"fmt"
	"testing"
	"time"

	"github.com/btcsuite/btcd/chaincfg/chainhash"
	"github.com/btcsuite/btcd/wire"
	"github.com/btcsuite/btcwallet/walletdb"
	"github.com/btcsuite/btcwallet/wtxmgr"
)

func govcHash(branch byte, height int32) chainhash.Hash {
	var h chainhash.Hash
	h[0] = branch
	binary.BigEndian.PutUint32(h[4:], uint32(height))
	h[31] = 0x5a
	return h
}

func TestGovcReplay(t *testing.T) {
	_ = govcModel(t)
	w, cleanup := testWallet(t)
	defer cleanup()
	w.chainClient.(*mockChainClient).getBlockHeader = &wire.BlockHeader{Timestamp: time.Unix(1600000000, 0)}
	w.SetChainSynced(true)
	genesis := w.Manager.SyncedTo()
	err := walletdb.Update(w.db, func(tx walletdb.ReadWriteTx) error {
		return w.Manager.SetBirthdayBlock(tx.ReadWriteBucket(waddrmgrNamespaceKey), genesis, true)
	})
	if err != nil {
		t.Fatal(err)
	}
	meta := func(branch byte, h int32) wtxmgr.BlockMeta {
		return wtxmgr.BlockMeta{Block: wtxmgr.Block{Hash: govcHash(branch, h), Height: h}, Time: time.Unix(1600000000+int64(h)*600, 0)}
	}
	bad := 0
	check := func(what string, wantH int32) {
		got := w.Manager.SyncedTo()
		if got.Height != wantH || got.Hash != govcHash('A', wantH) {
			fmt.Printf("%s: synced-to = (%d, %v), want (%d, %v)\n", what, got.Height, got.Hash, wantH, govcHash('A', wantH))
			bad++
		}
		walletdb.View(w.db, func(tx walletdb.ReadTx) error {
			ns := tx.ReadBucket(waddrmgrNamespaceKey)
			for h := int32(1); h <= wantH; h++ {
				hash, err := w.Manager.BlockHash(ns, h)
				if err != nil || *hash != govcHash('A', h) {
					fmt.Printf("%s: remembered hash at height %d = %v (err %v), want %v\n", what, h, hash, err, govcHash('A', h))
					bad++
				}
			}
			return nil
		})
	}
	for h := int32(1); h <= 5; h++ {
		m := meta('A', h)
		if err := walletdb.Update(w.db, func(tx walletdb.ReadWriteTx) error { return w.connectBlock(tx, m) }); err != nil {
			t.Fatalf("connect %d: %v", h, err)
		}
	}
	check("after connecting A1..A5", 5)
	stale := meta('B', 5)
	walletdb.Update(w.db, func(tx walletdb.ReadWriteTx) error { return w.disconnectBlock(tx, stale) })
	check("after a stale disconnect of B5", 5)
	for h := int32(5); h >= 4; h-- {
		m := meta('A', h)
		if err := walletdb.Update(w.db, func(tx walletdb.ReadWriteTx) error { return w.disconnectBlock(tx, m) }); err != nil {
			fmt.Printf("disconnect A%d: %v\n", h, err)
			bad++
		}
		check(fmt.Sprintf("after disconnecting A%d", h), h-1)
	}
	if bad > 0 {
		fmt.Printf("REPLAY-VIOLATION %d mismatches between the wallet's tip / remembered hashes and the best chain\n", bad)
		return
	}
	fmt.Println("REPLAY-OK")
}
