package spec

import (
	"fmt"
	"os"
	"strings"
	"unicode"
)

// ---------- lexer ----------

type tok struct {
	kind string // id, int, str, op, eof
	val  string
}

func lex(s string) ([]tok, error) {
	var out []tok
	i := 0
	for i < len(s) {
		c := s[i]
		switch {
		case c == ' ' || c == '\t' || c == '\n' || c == '\r':
			i++
		case c == '/' && i+1 < len(s) && s[i+1] == '/':
			// trailing comment
			i = len(s)
		case unicode.IsLetter(rune(c)) || c == '_' || c == '$':
			j := i
			for j < len(s) && (unicode.IsLetter(rune(s[j])) || unicode.IsDigit(rune(s[j])) || s[j] == '_' || s[j] == '$' || s[j] == '\'') {
				j++
			}
			out = append(out, tok{"id", s[i:j]})
			i = j
		case unicode.IsDigit(rune(c)):
			j := i
			if c == '0' && j+1 < len(s) && (s[j+1] == 'x' || s[j+1] == 'X') {
				j += 2
				for j < len(s) && strings.ContainsRune("0123456789abcdefABCDEF_", rune(s[j])) {
					j++
				}
			} else {
				for j < len(s) && (unicode.IsDigit(rune(s[j])) || s[j] == '_') {
					j++
				}
			}
			out = append(out, tok{"int", strings.ReplaceAll(s[i:j], "_", "")})
			i = j
		case c == '"':
			j := i + 1
			for j < len(s) && s[j] != '"' {
				if s[j] == '\\' {
					j++
				}
				j++
			}
			if j >= len(s) {
				return nil, fmt.Errorf("unterminated string")
			}
			out = append(out, tok{"str", s[i+1 : j]})
			i = j + 1
		default:
			ops := []string{"<==>", "==>", "::", "==", "!=", "<=", ">=", "&&", "||", "<<", ">>"}
			matched := false
			for _, op := range ops {
				if strings.HasPrefix(s[i:], op) {
					out = append(out, tok{"op", op})
					i += len(op)
					matched = true
					break
				}
			}
			if !matched {
				if strings.ContainsRune("+-*/%<>!()[]{},.:?@&|^", rune(c)) {
					out = append(out, tok{"op", string(c)})
					i++
				} else {
					return nil, fmt.Errorf("bad character %q", c)
				}
			}
		}
	}
	out = append(out, tok{"eof", ""})
	return out, nil
}

// ---------- expression parser ----------

type parser struct {
	toks []tok
	pos  int
}

func (p *parser) peek() tok { return p.toks[p.pos] }
func (p *parser) next() tok { t := p.toks[p.pos]; p.pos++; return t }
func (p *parser) isOp(v string) bool {
	t := p.peek()
	return t.kind == "op" && t.val == v
}
func (p *parser) isID(v string) bool {
	t := p.peek()
	return t.kind == "id" && t.val == v
}
func (p *parser) expectOp(v string) {
	if !p.isOp(v) {
		panic(fmt.Errorf("expected %q, got %q", v, p.peek().val))
	}
	p.pos++
}
func (p *parser) ident() string {
	t := p.next()
	if t.kind != "id" {
		panic(fmt.Errorf("expected identifier, got %q", t.val))
	}
	return t.val
}

// ParseExpr parses a contract expression.
func ParseExpr(s string) (e Expr, err error) {
	toks, err := lex(s)
	if err != nil {
		return nil, err
	}
	p := &parser{toks: toks}
	defer func() {
		if r := recover(); r != nil {
			err = fmt.Errorf("%v in %q", r, s)
		}
	}()
	e = p.expr()
	if p.peek().kind != "eof" {
		panic(fmt.Errorf("trailing token %q", p.peek().val))
	}
	return e, nil
}

// sort := Int | Bool | Name | [K]V | go-ish names with dots
func (p *parser) sort() string {
	if p.isOp("[") {
		p.next()
		k := p.sort()
		p.expectOp("]")
		v := p.sort()
		return "(Array " + k + " " + v + ")"
	}
	if p.isOp("*") {
		p.next()
		return "*" + p.sort()
	}
	n := p.ident()
	for p.isOp(".") {
		p.next()
		n += "." + p.ident()
	}
	return n
}

func (p *parser) expr() Expr {
	if p.isID("forall") || p.isID("exists") {
		q := &Quant{Forall: p.next().val == "forall"}
		for {
			name := p.ident()
			names := []string{name}
			// allow "i, j Int"
			for p.isOp(",") {
				p.next()
				names = append(names, p.ident())
			}
			srt := p.sort()
			for _, n := range names {
				q.Vars = append(q.Vars, Var{n, srt})
			}
			if p.isOp(",") {
				p.next()
				continue
			}
			break
		}
		p.expectOp("::")
		for p.isOp("{") {
			p.next()
			var tr []Expr
			for {
				tr = append(tr, p.expr())
				if p.isOp(",") {
					p.next()
					continue
				}
				break
			}
			p.expectOp("}")
			q.Triggers = append(q.Triggers, tr)
		}
		q.Body = p.expr()
		return q
	}
	c := p.iff()
	if p.isOp("?") {
		p.next()
		a := p.expr()
		p.expectOp(":")
		b := p.expr()
		return &Cond{c, a, b}
	}
	return c
}

func (p *parser) iff() Expr {
	l := p.implies()
	for p.isOp("<==>") {
		p.next()
		r := p.implies()
		l = &Binary{"<==>", l, r}
	}
	return l
}

func (p *parser) implies() Expr {
	l := p.or()
	if p.isOp("==>") {
		p.next()
		var r Expr
		if p.isID("forall") || p.isID("exists") {
			r = p.expr()
		} else {
			r = p.implies()
		}
		return &Binary{"==>", l, r}
	}
	return l
}

func (p *parser) or() Expr {
	l := p.and()
	for p.isOp("||") {
		p.next()
		l = &Binary{"||", l, p.and()}
	}
	return l
}

func (p *parser) and() Expr {
	l := p.cmp()
	for p.isOp("&&") {
		p.next()
		var r Expr
		if p.isID("forall") || p.isID("exists") {
			r = p.expr()
		} else {
			r = p.cmp()
		}
		l = &Binary{"&&", l, r}
	}
	return l
}

func (p *parser) cmp() Expr {
	l := p.add()
	for {
		t := p.peek()
		if t.kind == "op" && (t.val == "==" || t.val == "!=" || t.val == "<" || t.val == "<=" || t.val == ">" || t.val == ">=") {
			p.next()
			r := p.add()
			l = &Binary{t.val, l, r}
			continue
		}
		return l
	}
}

func (p *parser) add() Expr {
	l := p.mul()
	for p.isOp("+") || p.isOp("-") {
		op := p.next().val
		l = &Binary{op, l, p.mul()}
	}
	return l
}

func (p *parser) mul() Expr {
	l := p.unary()
	for p.isOp("*") || p.isOp("/") || p.isOp("%") {
		op := p.next().val
		l = &Binary{op, l, p.unary()}
	}
	return l
}

func (p *parser) unary() Expr {
	if p.isOp("!") || p.isOp("-") {
		op := p.next().val
		return &Unary{op, p.unary()}
	}
	if p.isOp("*") {
		// pointer type name, only meaningful as the type argument of typeis(x, *T)
		p.next()
		return &Ident{"*" + strings.ReplaceAll(p.unary().String(), " ", "")}
	}
	return p.postfix()
}

func (p *parser) postfix() Expr {
	e := p.primary()
	for {
		switch {
		case p.isOp("."):
			p.next()
			e = &Sel{e, p.ident()}
		case p.isOp("["):
			p.next()
			i := p.expr()
			p.expectOp("]")
			e = &Index{e, i}
		case p.isOp("("):
			// call on identifier / dotted name
			name := ""
			switch x := e.(type) {
			case *Ident:
				name = x.Name
			case *Sel:
				name = x.String()
			default:
				panic(fmt.Errorf("call of non-name %s", e))
			}
			p.next()
			var args []Expr
			if !p.isOp(")") {
				for {
					args = append(args, p.expr())
					if p.isOp(",") {
						p.next()
						continue
					}
					break
				}
			}
			p.expectOp(")")
			e = &Call{name, args}
		default:
			return e
		}
	}
}

func (p *parser) primary() Expr {
	t := p.next()
	switch t.kind {
	case "int":
		return &IntLit{t.val}
	case "str":
		return &StrLit{t.val}
	case "id":
		switch t.val {
		case "true":
			return &BoolLit{true}
		case "false":
			return &BoolLit{false}
		}
		return &Ident{t.val}
	case "op":
		switch t.val {
		case "(":
			e := p.expr()
			p.expectOp(")")
			return e
		case "@":
			kind := p.ident()
			p.expectOp("(")
			depth := 1
			name := ""
			for depth > 0 {
				x := p.next()
				if x.kind == "eof" {
					panic(fmt.Errorf("unterminated @ref"))
				}
				if x.kind == "op" && x.val == "(" {
					depth++
				}
				if x.kind == "op" && x.val == ")" {
					depth--
					if depth == 0 {
						break
					}
				}
				name += x.val
			}
			return &HeapRef{kind, name}
		}
	}
	panic(fmt.Errorf("unexpected token %q", t.val))
}

// ---------- file parser ----------

var keywords = map[string]bool{
	"package": true, "sort": true, "spec": true, "macro": true, "axiom": true, "lemma": true,
	"ghost": true, "func": true, "iface": true, "property": true, "requires": true, "ensures": true, "assumes": true, "guarantees": true, "ginvariant": true, "gloopinv": true,
	"invariant": true, "modifies": true, "pure": true, "trusted": true, "aux": true, "inline": true,
	"nobody": true, "replay": true, "reveal": true, "auto": true, "loopinv": true, "writes": true, "const": true, "import": true, "fresh": true, "opt": true, "induct": true, "counter": true, "okcounter": true,
}

type directive struct {
	kw   string
	text string
	line int
}

// ParseFile parses a contract file. If goFile is true only lines starting
// with //@ are considered.
func ParseFile(path string, pkg string) (*File, error) {
	data, err := os.ReadFile(path)
	if err != nil {
		return nil, err
	}
	goFile := strings.HasSuffix(path, ".go")
	var dirs []directive
	for n, raw := range strings.Split(string(data), "\n") {
		line := raw
		if goFile {
			t := strings.TrimSpace(line)
			if !strings.HasPrefix(t, "//@") {
				continue
			}
			line = strings.TrimPrefix(t, "//@")
		} else {
			if i := strings.Index(line, "#"); i >= 0 && (i == 0 || line[i-1] == ' ' || line[i-1] == '\t') {
				if i == 0 || strings.TrimSpace(line[:i]) == "" {
					continue
				}
			}
		}
		t := strings.TrimSpace(line)
		if t == "" {
			continue
		}
		// strip trailing " // comment"
		if i := strings.Index(t, " // "); i >= 0 {
			t = strings.TrimSpace(t[:i])
		}
		first := t
		if i := strings.IndexAny(t, " \t"); i >= 0 {
			first = t[:i]
		}
		if keywords[first] {
			dirs = append(dirs, directive{first, strings.TrimSpace(t[len(first):]), n + 1})
		} else if len(dirs) > 0 {
			dirs[len(dirs)-1].text += " " + t
		} else {
			return nil, fmt.Errorf("%s:%d: text before first directive", path, n+1)
		}
	}
	f := &File{Path: path, Pkg: pkg, Imports: map[string]string{}}
	var cur *FuncContract
	var lastClause *Clause
	fail := func(d directive, err error) error {
		return fmt.Errorf("%s:%d: %s: %v", path, d.line, d.kw, err)
	}
	for _, d := range dirs {
		src := fmt.Sprintf("%s:%d", path, d.line)
		switch d.kw {
		case "package":
			f.Pkg = d.text
			cur = nil
		case "import":
			parts := strings.Fields(d.text)
			if len(parts) != 2 {
				return nil, fail(d, fmt.Errorf("want: import alias path"))
			}
			f.Imports[parts[0]] = parts[1]
		case "sort":
			f.Sorts = append(f.Sorts, strings.Fields(d.text)...)
			cur = nil
		case "const", "ghost":
			parts := strings.SplitN(d.text, " ", 2)
			if len(parts) != 2 {
				return nil, fail(d, fmt.Errorf("want: name Sort"))
			}
			srt, err := parseSort(parts[1])
			if err != nil {
				return nil, fail(d, err)
			}
			if d.kw == "const" {
				f.Consts = append(f.Consts, Var{parts[0], srt})
			} else {
				f.Ghosts = append(f.Ghosts, Var{parts[0], srt})
				if f.GhostPkg == nil {
					f.GhostPkg = map[string]string{}
				}
				f.GhostPkg[parts[0]] = f.Pkg
			}
			cur = nil
		case "counter", "okcounter":
			// counter <ghost> <func key>: an Int ghost bumped before every call of the function
			// okcounter <ghost> <func key>: bumped after the call iff its error result is nil
			parts := strings.SplitN(d.text, " ", 2)
			if len(parts) != 2 {
				return nil, fail(d, fmt.Errorf("want: counter <ghost> <pkgpath::Func | Func>"))
			}
			fk := strings.TrimSpace(parts[1])
			if !strings.Contains(fk, "::") {
				fk = f.Pkg + "::" + fk
			}
			f.Ghosts = append(f.Ghosts, Var{parts[0], "Int"})
			f.Counters = append(f.Counters, Counter{Ghost: parts[0], Func: fk, OnOK: d.kw == "okcounter"})
			cur = nil
		case "spec", "macro":
			sf, err := parseSpecFunc(d.text, d.kw == "macro")
			if err != nil {
				return nil, fail(d, err)
			}
			sf.Src = src
			sf.Pkg = f.Pkg
			f.Funcs = append(f.Funcs, sf)
			cur = nil
		case "axiom", "lemma":
			cl, err := parseClause(d.text)
			if err != nil {
				return nil, fail(d, err)
			}
			cl.Src = src
			if d.kw == "axiom" {
				f.Axioms = append(f.Axioms, cl)
			} else {
				f.Lemmas = append(f.Lemmas, cl)
			}
			cur = nil
		case "induct":
			// induct v > low: the preceding lemma is proved by induction on v
			if len(f.Lemmas) == 0 {
				return nil, fail(d, fmt.Errorf("induct without a preceding lemma"))
			}
			parts := strings.SplitN(d.text, ">", 2)
			if len(parts) != 2 {
				return nil, fail(d, fmt.Errorf("want: induct v > low"))
			}
			low, err := ParseExpr(parts[1])
			if err != nil {
				return nil, fail(d, err)
			}
			l := f.Lemmas[len(f.Lemmas)-1]
			l.InductVar, l.InductLow = strings.TrimSpace(parts[0]), low
		case "auto":
			// auto <prop> modifies <ghost>: template contract applied to every
			// function of the package that may modify <ghost> and returns error
			parts := strings.Fields(d.text)
			if len(parts) != 3 || parts[1] != "modifies" {
				return nil, fail(d, fmt.Errorf("want: auto <prop> modifies <ghost>"))
			}
			c := &FuncContract{Name: "auto:" + parts[0] + ":" + parts[2], Pkg: f.Pkg, Src: src,
				Opts: map[string]string{}, AuxLabels: map[string]bool{}, Props: []string{parts[0]}}
			f.Contracts = append(f.Contracts, c)
			cur = c
		case "func", "iface":
			c, err := parseFuncHeader(d.text)
			if err != nil {
				return nil, fail(d, err)
			}
			c.Iface = d.kw == "iface"
			c.Pkg = f.Pkg
			c.Src = src
			c.Opts = map[string]string{}
			c.AuxLabels = map[string]bool{}
			f.Contracts = append(f.Contracts, c)
			cur = c
		default:
			if cur == nil {
				return nil, fail(d, fmt.Errorf("clause outside func"))
			}
			switch d.kw {
			case "property":
				ps := strings.Fields(d.text)
				if lastClause != nil && false {
					lastClause.Props = ps
				}
				cur.Props = append(cur.Props, ps...)
			case "requires", "ensures", "assumes", "guarantees":
				cl, err := parseClause(d.text)
				if err != nil {
					return nil, fail(d, err)
				}
				cl.Src = src
				if d.kw == "requires" {
					cur.Requires = append(cur.Requires, cl)
				} else if d.kw == "assumes" {
					cur.Assumes = append(cur.Assumes, cl)
				} else if d.kw == "guarantees" {
					cur.Guarantees = append(cur.Guarantees, cl)
				} else {
					cur.Ensures = append(cur.Ensures, cl)
				}
				lastClause = cl
			case "invariant", "ginvariant":
				parts := strings.SplitN(d.text, " ", 2)
				n := 0
				if _, err := fmt.Sscanf(parts[0], "%d", &n); err != nil || len(parts) != 2 {
					return nil, fail(d, fmt.Errorf("want: invariant <loop#> label: expr"))
				}
				cl, err := parseClause(parts[1])
				if err != nil {
					return nil, fail(d, err)
				}
				cl.Loop = n
				cl.Src = src
				cl.U = d.kw == "ginvariant"
				cur.Invs = append(cur.Invs, cl)
			case "loopinv", "gloopinv":
				cl, err := parseClause(d.text)
				if err != nil {
					return nil, fail(d, err)
				}
				cl.Loop = 0
				cl.Src = src
				cl.U = d.kw == "gloopinv"
				cur.Invs = append(cur.Invs, cl)
			case "modifies":
				cur.HasMod = true
				for _, m := range strings.Split(d.text, ",") {
					if m = strings.TrimSpace(m); m != "" {
						cur.Modifies = append(cur.Modifies, m)
					}
				}
			case "pure":
				cur.Pure = true
			case "trusted":
				cur.Trusted = true
			case "inline":
				cur.Inline = true
			case "nobody":
				cur.NoBody = true
			case "replay":
				cur.Replay = d.text
			case "fresh":
				cur.Fresh = append(cur.Fresh, strings.Fields(d.text)...)
			case "writes":
				cur.HasWrites = true
				for _, w := range strings.Fields(strings.ReplaceAll(d.text, ",", " ")) {
					if w != "nothing" {
						cur.Writes = append(cur.Writes, w)
					}
				}
			case "reveal":
				cur.Reveal = append(cur.Reveal, strings.Fields(strings.ReplaceAll(d.text, ",", " "))...)
			case "aux":
				for _, l := range strings.Fields(d.text) {
					cur.AuxLabels[l] = true
				}
			case "opt":
				parts := strings.SplitN(d.text, " ", 2)
				v := ""
				if len(parts) == 2 {
					v = parts[1]
				}
				cur.Opts[parts[0]] = v
			}
		}
	}
	return f, nil
}

func parseSort(s string) (string, error) {
	toks, err := lex(s)
	if err != nil {
		return "", err
	}
	p := &parser{toks: toks}
	var out string
	func() {
		defer func() {
			if r := recover(); r != nil {
				err = fmt.Errorf("%v", r)
			}
		}()
		out = p.sort()
	}()
	return out, err
}

// label: expr
func parseClause(s string) (*Clause, error) {
	i := strings.Index(s, ":")
	if i < 0 {
		return nil, fmt.Errorf("missing label in %q", s)
	}
	// guard against "::" of a quantifier being taken as label separator
	label := strings.TrimSpace(s[:i])
	if strings.ContainsAny(label, " ()") || (i+1 < len(s) && s[i+1] == ':') {
		return nil, fmt.Errorf("clause needs `label: expr`, got %q", s)
	}
	e, err := ParseExpr(s[i+1:])
	if err != nil {
		return nil, err
	}
	var props []string
	if parts := strings.Split(label, "@"); len(parts) > 1 {
		label, props = parts[0], parts[1:]
	}
	return &Clause{Label: label, Expr: e, Props: props}, nil
}

// func name(a Sort, b Sort) Sort [= expr]
func parseSpecFunc(s string, macro bool) (*SpecFunc, error) {
	s = strings.TrimSpace(s)
	opaque := false
	axiomatic := false
	if !macro {
		if strings.HasPrefix(s, "opaque ") {
			opaque = true
			s = strings.TrimSpace(s[7:])
		}
		if strings.HasPrefix(s, "axiomatic ") {
			// defined by a quantified definitional axiom instead of a macro
			// (`define-fun`), so that applications of it may occur in patterns
			axiomatic = true
			s = strings.TrimSpace(s[10:])
		}
		if !strings.HasPrefix(s, "func ") {
			return nil, fmt.Errorf("want: spec [opaque] func name(...) Sort")
		}
		s = strings.TrimSpace(s[5:])
	}
	body := ""
	if i := strings.Index(s, " = "); i >= 0 {
		body = s[i+3:]
		s = s[:i]
	}
	toks, err := lex(s)
	if err != nil {
		return nil, err
	}
	p := &parser{toks: toks}
	sf := &SpecFunc{Macro: macro, Opaque: opaque, Axiomatic: axiomatic}
	func() {
		defer func() {
			if r := recover(); r != nil {
				err = fmt.Errorf("%v", r)
			}
		}()
		sf.Name = p.ident()
		p.expectOp("(")
		if !p.isOp(")") {
			for {
				n := p.ident()
				srt := ""
				if !macro {
					srt = p.sort()
				}
				sf.Params = append(sf.Params, Var{n, srt})
				if p.isOp(",") {
					p.next()
					continue
				}
				break
			}
		}
		p.expectOp(")")
		if !macro {
			sf.Result = p.sort()
		}
	}()
	if err != nil {
		return nil, err
	}
	if body != "" {
		sf.Body, err = ParseExpr(body)
		if err != nil {
			return nil, err
		}
	} else if macro {
		return nil, fmt.Errorf("macro needs a body")
	}
	return sf, nil
}

// Name(p1, p2) (r1, r2)   — Name may contain (*T).M, pkg paths, $n
func parseFuncHeader(s string) (*FuncContract, error) {
	s = strings.TrimSpace(s)
	c := &FuncContract{}
	// results
	res := ""
	if strings.HasSuffix(s, ")") {
		// find matching "(" of the last group
		depth := 0
		i := len(s) - 1
		for ; i >= 0; i-- {
			if s[i] == ')' {
				depth++
			} else if s[i] == '(' {
				depth--
				if depth == 0 {
					break
				}
			}
		}
		if i < 0 {
			return nil, fmt.Errorf("unbalanced parens in %q", s)
		}
		last := s[i+1 : len(s)-1]
		rest := strings.TrimSpace(s[:i])
		if strings.HasSuffix(rest, ")") {
			// rest ends with params group => last is results
			res = last
			s = rest
		} else {
			// only one group: params
			s = rest + "(" + last + ")"
		}
	}
	// params: last (...) group of s
	if !strings.HasSuffix(s, ")") {
		return nil, fmt.Errorf("missing parameter list in %q", s)
	}
	depth := 0
	i := len(s) - 1
	for ; i >= 0; i-- {
		if s[i] == ')' {
			depth++
		} else if s[i] == '(' {
			depth--
			if depth == 0 {
				break
			}
		}
	}
	params := s[i+1 : len(s)-1]
	c.Name = strings.TrimSpace(s[:i])
	for _, p := range strings.Split(params, ",") {
		if p = strings.TrimSpace(p); p != "" {
			c.Params = append(c.Params, p)
		}
	}
	for _, r := range strings.Split(res, ",") {
		if r = strings.TrimSpace(r); r != "" {
			c.Results = append(c.Results, r)
		}
	}
	if c.Name == "" {
		return nil, fmt.Errorf("missing function name")
	}
	return c, nil
}
