package vc

import (
	"fmt"
	"regexp"
	"go/types"
	"math/big"
	"sort"
	"strings"
)

// Term is an SMT-LIB term (text).
type Term = string

// Universe holds the per-run registry of SMT sorts, datatypes and heap
// component sorts; it is shared by all functions verified in one run so that
// the prelude can be emitted once per obligation script.
type Universe struct {
	structs   map[string]*StructInfo // by key
	structOrd []string
	compSort  map[string]string // heap component key -> SMT sort of the component
	compElem  map[string]types.Type // element Go type stored in the component
	strLits   map[string]string // string literal -> constant name
	strOrd    []string
	typeIDs   map[string]int
	typeOrd   []string
	fnIDs     map[string]int
	sizes     types.Sizes
	extraDecl []string
	extraSeen map[string]bool
	preDeclared map[string]bool // constants declared by the spec prelude
	Reveal      map[string]string // opaque spec function -> definitional axiom text
	RelaxDef    map[string]string // declare-fun line -> define-fun line (quantifier-free mode)
}

// StructInfo describes a Go struct type lowered to an SMT datatype.
type StructInfo struct {
	Key    string
	Sort   string
	Ctor   string
	Fields []FieldInfo
	Type   *types.Struct
}

type FieldInfo struct {
	Name string
	Acc  string
	Sort string
	Type types.Type
}

func NewUniverse() *Universe {
	return &Universe{
		structs: map[string]*StructInfo{}, compSort: map[string]string{}, compElem: map[string]types.Type{}, strLits: map[string]string{},
		typeIDs: map[string]int{}, fnIDs: map[string]int{}, sizes: types.SizesFor("gc", "amd64"),
		extraSeen: map[string]bool{}, preDeclared: map[string]bool{}, Reveal: map[string]string{}, RelaxDef: map[string]string{},
	}
}

func sanitize(s string) string {
	var b strings.Builder
	for _, r := range s {
		switch {
		case r >= 'a' && r <= 'z', r >= 'A' && r <= 'Z', r >= '0' && r <= '9', r == '_', r == '.', r == '!', r == '$':
			b.WriteRune(r)
		case r == '/':
			b.WriteRune('.')
		case r == '*':
			b.WriteString("ptr.")
		case r == '[':
			b.WriteString("arr")
		case r == ']':
			b.WriteString("_")
		default:
			b.WriteRune('_')
		}
	}
	return b.String()
}

// shortPkg abbreviates well-known import paths to keep names readable.
func shortType(t types.Type) string {
	return types.TypeString(t, func(p *types.Package) string {
		path := p.Path()
		path = strings.TrimPrefix(path, "github.com/btcsuite/btcwallet/")
		path = strings.TrimPrefix(path, "github.com/btcsuite/btcd/")
		path = strings.TrimPrefix(path, "github.com/btcsuite/")
		return path
	})
}

// typeKey is the canonical key of a Go type used in component names.
func typeKey(t types.Type) string {
	t = types.Unalias(t)
	return byteRe.ReplaceAllStringFunc(shortType(t), func(m string) string {
		if m == "byte" {
			return "uint8"
		}
		return "int32"
	})
}

// byte and rune are aliases of uint8 and int32 but print differently.
var byteRe = regexp.MustCompile(`\b(byte|rune)\b`)

// TypeID returns a small positive integer identifying a dynamic type.
func (u *Universe) TypeID(t types.Type) int {
	k := typeKey(t)
	if id, ok := u.typeIDs[k]; ok {
		return id
	}
	id := len(u.typeIDs) + 1
	u.typeIDs[k] = id
	u.typeOrd = append(u.typeOrd, k)
	return id
}

func (u *Universe) FnID(name string) int {
	if id, ok := u.fnIDs[name]; ok {
		return id
	}
	id := len(u.fnIDs) + 1
	u.fnIDs[name] = id
	return id
}

// SortOf maps a Go type to its SMT sort.
func (u *Universe) SortOf(t types.Type) string {
	t = types.Unalias(t)
	switch x := t.(type) {
	case *types.Named:
		if st, ok := x.Underlying().(*types.Struct); ok {
			return u.structInfo(typeKey(x), st).Sort
		}
		return u.SortOf(x.Underlying())
	case *types.Basic:
		switch {
		case x.Info()&types.IsBoolean != 0:
			return "Bool"
		case x.Info()&types.IsInteger != 0:
			return "Int"
		case x.Info()&types.IsString != 0:
			return "Str"
		case x.Info()&types.IsFloat != 0:
			return "Float"
		case x.Kind() == types.UnsafePointer:
			return "Int"
		case x.Kind() == types.UntypedNil:
			return "Int"
		}
		return "Int"
	case *types.Pointer, *types.Map, *types.Chan, *types.Signature:
		return "Int"
	case *types.Slice:
		return "Slice"
	case *types.Array:
		return "(Array Int " + u.SortOf(x.Elem()) + ")"
	case *types.Struct:
		return u.structInfo(typeKey(x), x).Sort
	case *types.Interface:
		return "Iface"
	case *types.Tuple:
		return "GoTuple"
	case *types.TypeParam:
		return "Iface"
	}
	return "Int"
}

func (u *Universe) structInfo(key string, st *types.Struct) *StructInfo {
	if si, ok := u.structs[key]; ok {
		return si
	}
	name := "S." + sanitize(key)
	if len(name) > 80 {
		name = fmt.Sprintf("S.anon%d", len(u.structs))
	}
	si := &StructInfo{Key: key, Sort: name, Ctor: "mk." + name, Type: st}
	u.structs[key] = si // register before recursing (recursive types go through pointers only)
	for i := 0; i < st.NumFields(); i++ {
		f := st.Field(i)
		fname := f.Name()
		if fname == "_" {
			fname = fmt.Sprintf("_%d", i)
		}
		si.Fields = append(si.Fields, FieldInfo{
			Name: fname, Acc: name + "." + fname, Sort: u.SortOf(f.Type()), Type: f.Type(),
		})
	}
	u.structOrd = append(u.structOrd, key)
	return si
}

// StructOf returns the struct info for a (possibly named) struct type.
func (u *Universe) StructOf(t types.Type) *StructInfo {
	t = types.Unalias(t)
	switch x := t.(type) {
	case *types.Named:
		if st, ok := x.Underlying().(*types.Struct); ok {
			return u.structInfo(typeKey(x), st)
		}
	case *types.Struct:
		return u.structInfo(typeKey(x), x)
	}
	return nil
}

// ---- heap component keys ----

// FieldComp is the component holding field f of all objects of struct type t.
func (u *Universe) FieldComp(t types.Type, idx int) string {
	si := u.StructOf(t)
	f := si.Fields[idx]
	key := "H|" + si.Key + "|" + f.Name
	u.compSort[key] = "(Array Int " + f.Sort + ")"
	u.compElem[key] = f.Type
	return key
}

// ElemComp is the component holding the element rows of arrays/slices of elem type t.
func (u *Universe) ElemComp(elem types.Type) string {
	key := "M|" + typeKey(elem)
	u.compSort[key] = "(Array Int (Array Int " + u.SortOf(elem) + "))"
	u.compElem[key] = elem
	return key
}

// CellComp holds cells of non-struct, non-array type t (new(int), captured vars).
func (u *Universe) CellComp(t types.Type) string {
	key := "C|" + typeKey(t)
	u.compSort[key] = "(Array Int " + u.SortOf(t) + ")"
	u.compElem[key] = t
	return key
}

// BoxComp holds values of type t boxed inside interfaces.
func (u *Universe) BoxComp(t types.Type) string {
	key := "B|" + typeKey(t)
	u.compSort[key] = "(Array Int " + u.SortOf(t) + ")"
	u.compElem[key] = t
	return key
}

// MapComps returns (domain, value) components for map type m.
func (u *Universe) MapComps(m *types.Map) (string, string) {
	k := typeKey(m.Key()) + "|" + typeKey(m.Elem())
	d, v := "MD|"+k, "MV|"+k
	u.compSort[d] = "(Array Int (Array " + u.SortOf(m.Key()) + " Bool))"
	u.compSort[v] = "(Array Int (Array " + u.SortOf(m.Key()) + " " + u.SortOf(m.Elem()) + "))"
	return d, v
}

// GlobalComp is the component holding the value of a package-level variable.
func (u *Universe) GlobalComp(pkgPath, name string, t types.Type) string {
	key := "Glob|" + pkgPath + "." + name
	u.compSort[key] = u.SortOf(t)
	u.compElem[key] = t
	return key
}

// GhostComp is a ghost variable.
func (u *Universe) GhostComp(name, srt string) string {
	key := "G|" + name
	u.compSort[key] = srt
	return key
}

const TopKey = "G|$top"

// addrSpace bounds slice and string lengths (2^50: no object exceeds the
// machine's virtual address space). Listed in the trusted base.
const addrSpace = "1125899906842624"

// ---- literals, ranges ----

func intLit(v *big.Int) Term {
	if v.Sign() < 0 {
		return "(- " + new(big.Int).Neg(v).String() + ")"
	}
	return v.String()
}

func intLitI(v int64) Term { return intLit(big.NewInt(v)) }

// intRange returns [lo,hi] of a basic integer type.
func intRange(b *types.Basic) (lo, hi *big.Int) {
	bits := 64
	signed := true
	switch b.Kind() {
	case types.Int8:
		bits = 8
	case types.Int16:
		bits = 16
	case types.Int32, types.UntypedRune:
		bits = 32
	case types.Int, types.Int64, types.UntypedInt:
		bits = 64
	case types.Uint8:
		bits, signed = 8, false
	case types.Uint16:
		bits, signed = 16, false
	case types.Uint32:
		bits, signed = 32, false
	case types.Uint, types.Uint64, types.Uintptr:
		bits, signed = 64, false
	}
	one := big.NewInt(1)
	if signed {
		hi = new(big.Int).Sub(new(big.Int).Lsh(one, uint(bits-1)), one)
		lo = new(big.Int).Neg(new(big.Int).Lsh(one, uint(bits-1)))
	} else {
		lo = big.NewInt(0)
		hi = new(big.Int).Sub(new(big.Int).Lsh(one, uint(bits)), one)
	}
	return
}

func basicInt(t types.Type) *types.Basic {
	b, ok := types.Unalias(t).Underlying().(*types.Basic)
	if ok && b.Info()&types.IsInteger != 0 {
		return b
	}
	return nil
}

// rangeFact returns the well-formedness fact for a term of Go type t ("" if none).
func (u *Universe) rangeFact(x Term, t types.Type, top Term) Term {
	t = types.Unalias(t)
	if b := basicInt(t); b != nil {
		lo, hi := intRange(b)
		return fmt.Sprintf("(and (<= %s %s) (<= %s %s))", intLit(lo), x, x, intLit(hi))
	}
	switch tt := t.Underlying().(type) {
	case *types.Slice:
		// the backing array is nil (0), an allocated object (> 0) or an array that
		// lives inline in another object (an interior reference fld(r,k) < 0): no
		// sign is assumed, only that the object it belongs to is allocated
		f := fmt.Sprintf("(and (<= 0 (s.off %s)) (<= 0 (s.len %s)) (<= (s.len %s) (s.cap %s)) (<= 0 (oroot (s.base %s))) (=> (= (s.base %s) 0) (and (= (s.len %s) 0) (= (s.cap %s) 0) (= (s.off %s) 0)))", x, x, x, x, x, x, x, x, x)
		if top != "" {
			f += fmt.Sprintf(" (<= (oroot (s.base %s)) %s)", x, top)
		}
		f += fmt.Sprintf(" (<= (s.cap %s) %s) (<= (s.off %s) %s)", x, addrSpace, x, addrSpace)
		return f + ")"
	case *types.Pointer:
		// a pointer may point into another object (&x.f of an inline struct or
		// array field is an interior reference < 0): only its object is bounded
		if top != "" {
			return fmt.Sprintf("(and (<= 0 (oroot %s)) (<= (oroot %s) %s))", x, x, top)
		}
		return fmt.Sprintf("(<= 0 (oroot %s))", x)
	case *types.Map, *types.Chan:
		if top != "" {
			return fmt.Sprintf("(and (<= 0 %s) (<= %s %s))", x, x, top)
		}
		return fmt.Sprintf("(<= 0 %s)", x)
	case *types.Struct:
		si := u.StructOf(t)
		var parts []string
		for _, f := range si.Fields {
			if p := u.rangeFact("("+f.Acc+" "+x+")", f.Type, top); p != "" {
				parts = append(parts, p)
			}
		}
		if len(parts) == 0 {
			return ""
		}
		return "(and " + strings.Join(parts, " ") + " true)"
	case *types.Basic:
		if tt.Info()&types.IsString != 0 {
			return fmt.Sprintf("(and (<= 0 (slen %s)) (<= (slen %s) %s))", x, x, addrSpace)
		}
	case *types.Interface:
		if top != "" {
			return fmt.Sprintf("(and (<= 0 (oroot (i.val %s))) (<= (oroot (i.val %s)) %s) (<= 0 (i.typ %s)) (=> (= (i.typ %s) 0) (= (i.val %s) 0)))", x, x, top, x, x, x)
		}
	case *types.Array:
		if b := basicInt(tt.Elem()); b != nil {
			lo, hi := intRange(b)
			return fmt.Sprintf("(forall ((i!r Int)) (! (and (<= %s (select %s i!r)) (<= (select %s i!r) %s)) :pattern ((select %s i!r))))", intLit(lo), x, x, intLit(hi), x)
		}
	}
	return ""
}

// ZeroValue returns the SMT term of the zero value of t.
func (u *Universe) ZeroValue(t types.Type) Term {
	t = types.Unalias(t)
	switch x := t.Underlying().(type) {
	case *types.Basic:
		switch {
		case x.Info()&types.IsBoolean != 0:
			return "false"
		case x.Info()&types.IsString != 0:
			return u.StrLit("")
		case x.Info()&types.IsFloat != 0:
			return "float.zero"
		}
		return "0"
	case *types.Slice:
		return "(mk.slice 0 0 0 0)"
	case *types.Struct:
		si := u.StructOf(t)
		if len(si.Fields) == 0 {
			return si.Ctor
		}
		var parts []string
		for _, f := range si.Fields {
			parts = append(parts, u.ZeroValue(f.Type))
		}
		return "(" + si.Ctor + " " + strings.Join(parts, " ") + ")"
	case *types.Array:
		return "((as const " + u.SortOf(t) + ") " + u.ZeroValue(x.Elem()) + ")"
	case *types.Interface:
		return "(mk.iface 0 0)"
	}
	return "0"
}

// StrLit interns a string literal.
func (u *Universe) StrLit(s string) Term {
	if n, ok := u.strLits[s]; ok {
		return n
	}
	n := fmt.Sprintf("str!%d", len(u.strLits))
	u.strLits[s] = n
	u.strOrd = append(u.strOrd, s)
	return n
}

// Prelude emits sort, datatype and literal declarations.
func (u *Universe) Prelude(db *SpecDB) string {
	var b strings.Builder
	b.WriteString("(declare-sort Str 0)\n(declare-sort Float 0)\n(declare-sort GoTuple 0)\n")
	b.WriteString("(declare-fun slen (Str) Int)\n(declare-const float.zero Float)\n")
	b.WriteString("(declare-datatypes ((Slice 0)) (((mk.slice (s.base Int) (s.off Int) (s.len Int) (s.cap Int)))))\n")
	b.WriteString("(declare-datatypes ((Iface 0)) (((mk.iface (i.typ Int) (i.val Int)))))\n")
	b.WriteString("(define-fun nil.slice () Slice (mk.slice 0 0 0 0))\n(define-fun nil.iface () Iface (mk.iface 0 0))\n")
	b.WriteString("(declare-fun str.bytes (Str) (Array Int Int))\n")
	// Bytes: abstract byte strings (length + contents normalised to 0 outside
	// [0,len)), so that SMT equality is equality of byte strings
	b.WriteString("(declare-datatypes ((Bytes 0)) (((mk.bytes (b.len Int) (b.arr (Array Int Int))))))\n")
	b.WriteString("(declare-fun fld (Int Int) Int)\n(declare-fun fld.base (Int) Int)\n(declare-fun fld.idx (Int) Int)\n")
	b.WriteString("(assert (forall ((r Int) (k Int)) (! (and (< (fld r k) 0) (= (fld.base (fld r k)) r) (= (fld.idx (fld r k)) k)) :pattern ((fld r k)))))\n")
	// oroot(o): the allocated object a (possibly interior) reference belongs to
	b.WriteString("(declare-fun oroot (Int) Int)\n")
	b.WriteString("(assert (forall ((r Int) (k Int)) (! (= (oroot (fld r k)) (oroot r)) :pattern ((fld r k)))))\n")
	b.WriteString("(assert (forall ((o Int)) (! (=> (>= o 0) (= (oroot o) o)) :pattern ((oroot o)))))\n")
	b.WriteString("(declare-fun loc (Int Int) Int)\n(assert (forall ((o Int) (i Int)) (! (= (loc o i) (+ o i)) :pattern ((loc o i)))))\n")
	b.WriteString("(declare-fun win ((Array Int Int) Int Int) (Array Int Int))\n")
	b.WriteString("(assert (forall ((r (Array Int Int)) (o Int) (n Int) (i Int)) (! (= (select (win r o n) i) (ite (and (<= 0 i) (< i n)) (select r (loc o i)) 0)) :pattern ((select (win r o n) i)))))\n")
	// b.cat: concatenation of byte strings (normalised: zero outside [0,len))
	b.WriteString("(declare-fun b.cat (Bytes Bytes) Bytes)\n")
	b.WriteString("(assert (forall ((x Bytes) (y Bytes)) (! (= (b.len (b.cat x y)) (+ (b.len x) (b.len y))) :pattern ((b.cat x y)))))\n")
	b.WriteString("(assert (forall ((x Bytes) (y Bytes) (i Int)) (! (= (select (b.arr (b.cat x y)) i) (ite (and (<= 0 i) (< i (b.len x))) (select (b.arr x) i) (ite (and (<= (b.len x) i) (< i (+ (b.len x) (b.len y)))) (select (b.arr y) (- i (b.len x))) 0))) :pattern ((select (b.arr (b.cat x y)) i)))))\n")
	var sorts []string
	for s := range db.Sorts {
		sorts = append(sorts, s)
	}
	sort.Strings(sorts)
	for _, s := range sorts {
		fmt.Fprintf(&b, "(declare-sort %s 0)\n", s)
	}
	// struct datatypes in registration order (dependencies are registered
	// after their users finish, so emit in structOrd which is post-order)
	for _, k := range u.structOrd {
		si := u.structs[k]
		fmt.Fprintf(&b, "(declare-datatypes ((%s 0)) (((%s", si.Sort, si.Ctor)
		for _, f := range si.Fields {
			fmt.Fprintf(&b, " (%s %s)", f.Acc, f.Sort)
		}
		b.WriteString("))))\n")
	}
	for i, s := range u.strOrd {
		n := u.strLits[s]
		fmt.Fprintf(&b, "(declare-const %s Str)\n(assert (= (slen %s) %d))\n", n, n, len(s))
		_ = i
	}
	if len(u.strOrd) > 1 {
		b.WriteString("(assert (distinct")
		for _, s := range u.strOrd {
			b.WriteString(" " + u.strLits[s])
		}
		b.WriteString("))\n")
	}
	for _, d := range u.extraDecl {
		b.WriteString(d + "\n")
	}
	return b.String()
}

// MapCard: cardinality of a key set (Array K Bool) as an uninterpreted function
// with the two facts a finite-set cardinality satisfies: the empty set has
// none, adding a new key adds one. (Built-in model of len(map); consistent for
// arbitrary arrays: count relative to a fixed representative of the set's
// class modulo finite differences.)
func (u *Universe) MapCard(keySort string, set Term) Term {
	f := "map.card." + sanitize(strings.NewReplacer(" ", "_", "(", "", ")", "").Replace(keySort))
	u.Extra(fmt.Sprintf("(declare-fun %s ((Array %s Bool)) Int)", f, keySort))
	u.Extra(fmt.Sprintf("(assert (= (%s ((as const (Array %s Bool)) false)) 0))", f, keySort))
	u.Extra(fmt.Sprintf("(assert (forall ((S!c (Array %[2]s Bool)) (k!c %[2]s)) (! (=> (not (select S!c k!c)) (= (%[1]s (store S!c k!c true)) (+ (%[1]s S!c) 1))) :pattern ((%[1]s (store S!c k!c true))))))", f, keySort))
	return fmt.Sprintf("(%s %s)", f, set)
}

// Extra registers an extra global declaration once.
func (u *Universe) Extra(decl string) {
	if !u.extraSeen[decl] {
		u.extraSeen[decl] = true
		u.extraDecl = append(u.extraDecl, decl)
	}
}
