#!/bin/bash
# Rebuilds obligations.baseline.json and unproved_clauses.json from scratch on the current /repo tree.
# Every property is rebaselined (each run iterates to its own fixpoint); because a clause skipped while
# processing one property can matter to functions owned by another, the whole pass is repeated until the
# skip set no longer changes. Solver verdicts of identical scripts are reused between rounds (GOVC_CACHE).
# usage: rebaseline.sh [prop ...]     (default: all properties of properties.cfg.json)
set -u
export GOFLAGS=-mod=mod GOPROXY=off GOSUMDB=off GOTOOLCHAIN=local
cd /verif
props=${*:-$(jq -r '.properties|to_entries[]|select((.value.packages|length)>0)|.key' properties.cfg.json)}
export GOVC_CACHE=$(mktemp -d "${TMPDIR:-/tmp}/govc-cache-XXXXXX")
trap 'rm -rf "$GOVC_CACHE"' EXIT
if [ $# -eq 0 ]; then echo '[]' > unproved_clauses.json; echo '{}' > obligations.baseline.json; fi
pass=0
while :; do
  pass=$((pass+1)); before=$(md5sum < unproved_clauses.json)
  for p in $props; do
    GOVC_NO_EVIDENCE=1 bin/govc baseline --property "$p" --write > "/tmp/rebase_$p.log" 2>&1
    grep "^$p: round\|GEN-ERROR\|^ERROR" "/tmp/rebase_$p.log" | tail -2
  done
  after=$(md5sum < unproved_clauses.json)
  echo "pass $pass done: skip set $( [ "$before" = "$after" ] && echo unchanged || echo changed )"
  [ "$before" = "$after" ] && break
  [ $pass -ge 6 ] && { echo "no fixpoint after 6 passes"; break; }
done
