package vc

import (
	"fmt"
	"go/types"
	"sort"
	"strings"

	"govc/internal/spec"

	"golang.org/x/tools/go/ssa"
)

// Obligation is one proof obligation of one function.
type Obligation struct {
	Name    string // <pkg>.<Func>#<kind>.<label>
	Func    string
	Kind    string // post, pre, inv.entry, inv.step, safety, ovf, lemma, cover, frame
	Label   string
	Props   []string
	Aux     bool
	Src     string
	Cover   bool   // expected sat (vacuity guard)
	Script  string // full SMT-LIB text (without check-sat/get-model trailer)
	Relaxed string // same without quantified assertions (candidate counterexamples, covers)
	Replay  string // replay template of the contract ("" if none)
	Reveal  []string // opaque spec functions revealed for this obligation
	PkgPath string // package of the function
	FullCover bool // cover checked against the full (quantified) prelude
	Goal    string
	ModelOf []string // constants whose model values are interesting (parameters)
}

// TV is a typed SMT value.
type TV struct {
	T    Term
	Sort string
	Go   types.Type
}

// Gen generates the VCs of one function.
type Gen struct {
	prog *Program
	u    *Universe
	fn   *ssa.Function
	con  *spec.FuncContract
	name string // display name pkg.Func

	*shared
	umode bool // unconditional pass: no requires, only `guarantees` clauses and U-invariants are proved

	vals   map[ssa.Value]Term
	places map[ssa.Value]*Place
	clos   map[ssa.Value]*ssa.MakeClosure

	entry    *State
	reach    map[*ssa.BasicBlock]Term
	exit     map[*ssa.BasicBlock]*State
	edgeCond map[[2]*ssa.BasicBlock]Term
	loops    map[*ssa.BasicBlock]*loopInfo
	loopOrd  []*ssa.BasicBlock
	backEdge map[[2]*ssa.BasicBlock]bool
	params   map[string]TV
	results  []string
	defers   []*ssa.Defer
	depth    int
	inlineStack []*ssa.Function
	err      error
	paramConsts []string
	retBlocks int
	curBlock *ssa.BasicBlock
	inlineEntry *State
	inlineReach Term
	tuples   map[ssa.Value][]Term
	panics   []Term
	strFrom  map[Term]Term
	inlineFrames []*inlineFrame
	instID   int
	rangeSt  map[ssa.Value]*rangeState
	root     *Gen
	deferred map[string]*deferredObl
	deferredOrd []string
	retReach []Term
	curInstr ssa.Instruction
	lastWritten []ssa.Value
	lastLocks   lockSites
}

// shared is the script under construction; inlined callees share it with
// their caller.
type shared struct {
	decls      []string
	declared   map[string]bool
	asserts    []string
	obls       []*Obligation
	stateN     int
	compN      int
	tmpN       int
	instN      int
	ordinals   map[string]int
	abstracted []string
	assumed    map[string]bool // contracts used (callee keys)
	inlined    map[string]bool
	usedClauses   map[string]bool // clauses of verified callees assumed in this function
	usedSpecFuncs map[string]bool
	uncontracted  map[string]bool // in-repo callees havocked by mod-set
	external      map[string]bool // dependency callees without contract
	sfN           int    // safety sites seen so far
	sfPrefix      Term   // Bool constant: every safety check before this point passed ("" = true)
}

type inlineRet struct {
	cond Term
	vals []Term
	st   *State
}

type inlineFrame struct {
	rets []inlineRet
}

type loopInfo struct {
	header *ssa.BasicBlock
	blocks map[*ssa.BasicBlock]bool
	ord    int
	phiEnv map[string]TV // set while evaluating invariants
	havoc  *State
	pre    *State        // state on entry to the loop (before the first iteration)
	prePhi map[string]TV // values of the loop's phi nodes on entry
}

type genError struct{ msg string }

func (g *Gen) fail(format string, args ...interface{}) {
	panic(genError{fmt.Sprintf(format, args...)})
}

func (g *Gen) declare(name, srt string) {
	if g.declared[name] {
		return
	}
	if g.u.preDeclared[name] {
		g.declared[name] = true
		return
	}
	g.declared[name] = true
	g.decls = append(g.decls, fmt.Sprintf("(declare-const %s %s)", name, srt))
}

func (g *Gen) assert(t Term) {
	if t == "" || t == "true" {
		return
	}
	g.asserts = append(g.asserts, "(assert "+t+")")
}

func (g *Gen) fresh(prefix, srt string) Term {
	g.tmpN++
	n := fmt.Sprintf("%s!%d", prefix, g.tmpN)
	g.declare(n, srt)
	return n
}

func displayName(f *ssa.Function) string {
	k := FuncKey(f)
	k = strings.TrimPrefix(k, "github.com/btcsuite/btcwallet/")
	k = strings.TrimPrefix(k, "github.com/btcsuite/")
	return strings.Replace(k, "::", ".", 1)
}

// script renders the SMT-LIB text for an obligation at the current point.
func (g *Gen) snapshot() (int, int) { return len(g.decls), len(g.asserts) }

func (g *Gen) addObl(kind, label string, reach Term, goal Term, src string, cover bool) {
	name := g.name + "#" + kind
	if label != "" {
		name += "." + label
	}
	// de-duplicate names by ordinal
	g.ordinals[name]++
	if n := g.ordinals[name]; n > 1 {
		name = fmt.Sprintf("%s~%d", name, n)
	}
	o := &Obligation{Name: name, Func: g.name, Kind: kind, Label: label, Src: src, Cover: cover, Goal: goal}
	if g.con != nil {
		o.Replay = g.con.Replay
		o.Reveal = g.con.Reveal
		if g.fn != nil && g.fn.Package() != nil {
			o.PkgPath = g.fn.Package().Pkg.Path()
		}
		o.Props = g.con.Props
		if cl := g.findClause(kind, label); cl != nil && len(cl.Props) > 0 {
			o.Props = cl.Props
		}
		base := label
		if i := strings.Index(base, "."); kind == "pre" && i >= 0 {
			base = label
		}
		o.Aux = g.con.AuxLabels[label] || g.con.AuxLabels[kind+"."+label]
	}
	var b, rb strings.Builder
	// the declarations and assertion prefix are captured now; the prelude
	// (sorts/datatypes) is prepended at emission time
	for _, d := range g.decls {
		b.WriteString(d)
		b.WriteByte('\n')
		rb.WriteString(d)
		rb.WriteByte('\n')
	}
	for _, a := range g.asserts {
		b.WriteString(a)
		b.WriteByte('\n')
		if !strings.Contains(a, "(forall ") && !strings.Contains(a, "(exists ") {
			rb.WriteString(a)
			rb.WriteByte('\n')
		}
	}
	var last string
	// Execution reaches this point only if every earlier run-time check
	// passed (otherwise the program panicked). Safety obligations carry
	// their own per-site prefixes instead (see Gen.safety).
	if kind != "safety" && kind != "pre" && kind != "inv.entry" && kind != "ginv.entry" && g.sfPrefix != "" {
		reach = fmt.Sprintf("(and %s %s)", g.sfPrefix, reach)
	}
	if cover {
		last = fmt.Sprintf("(assert %s)\n", reach)
	} else {
		last = fmt.Sprintf("(assert (not (=> %s %s)))\n", reach, goal)
	}
	b.WriteString(last)
	rb.WriteString(last)
	o.Script = b.String()
	o.Relaxed = rb.String()
	o.ModelOf = append([]string(nil), g.paramConsts...)
	g.obls = append(g.obls, o)
}

// GenFunction generates all obligations of fn against its contract.
// findClause: the contract clause an obligation kind/label stems from.
func (g *Gen) findClause(kind, label string) *spec.Clause {
	var list []*spec.Clause
	switch kind {
	case "post":
		list = g.con.Ensures
	case "gpost":
		list = g.con.Guarantees
	case "inv.entry", "inv.step", "ginv.entry", "ginv.step":
		list = g.con.Invs
		if i := strings.Index(label, "."); i >= 0 && strings.HasPrefix(label, "L") {
			label = label[i+1:]
		}
	default:
		return nil
	}
	for _, cl := range list {
		if cl.Label == label {
			return cl
		}
	}
	return nil
}

// GenFunction generates the obligations of fn: the conditional pass (under the
// contract's preconditions) and, when the contract has `guarantees` clauses or
// U-invariants, the unconditional pass over the same body.
func GenFunction(prog *Program, u *Universe, fn *ssa.Function, con *spec.FuncContract) (obls []*Obligation, err error) {
	obls, err = genPass(prog, u, fn, con, false)
	if err != nil {
		return obls, err
	}
	needU := len(con.Guarantees) > 0
	for _, inv := range con.Invs {
		if inv.U {
			needU = true
		}
	}
	if needU {
		main := lastShared
		uo, uerr := genPass(prog, u, fn, con, true)
		obls = append(obls, uo...)
		if lastShared != nil && main != nil && lastShared != main {
			for k := range lastShared.assumed {
				main.assumed[k] = true
			}
			for k := range lastShared.external {
				main.external[k] = true
			}
			for k := range lastShared.uncontracted {
				main.uncontracted[k] = true
			}
			lastShared = main
		}
		if uerr != nil {
			return obls, uerr
		}
	}
	return obls, nil
}

func genPass(prog *Program, u *Universe, fn *ssa.Function, con *spec.FuncContract, umode bool) (obls []*Obligation, err error) {
	g := &Gen{prog: prog, u: u, fn: fn, con: con, name: displayName(fn), umode: umode,
		shared: &shared{declared: map[string]bool{}, ordinals: map[string]int{}, assumed: map[string]bool{}, inlined: map[string]bool{},
			usedSpecFuncs: map[string]bool{}, uncontracted: map[string]bool{}, external: map[string]bool{}, usedClauses: map[string]bool{}},
		tuples: map[ssa.Value][]Term{}, strFrom: map[Term]Term{}, rangeSt: map[ssa.Value]*rangeState{},
		vals: map[ssa.Value]Term{}, places: map[ssa.Value]*Place{},
		clos: map[ssa.Value]*ssa.MakeClosure{}, reach: map[*ssa.BasicBlock]Term{}, exit: map[*ssa.BasicBlock]*State{},
		edgeCond: map[[2]*ssa.BasicBlock]Term{}, loops: map[*ssa.BasicBlock]*loopInfo{},
		backEdge: map[[2]*ssa.BasicBlock]bool{}, params: map[string]TV{}}
	defer func() {
		if r := recover(); r != nil {
			if ge, ok := r.(genError); ok {
				err = fmt.Errorf("%s: %s", g.name, ge.msg)
				obls = g.obls
				return
			}
			panic(r)
		}
	}()
	if len(fn.Blocks) == 0 {
		return nil, fmt.Errorf("%s: no body", g.name)
	}
	u.compSort[TopKey] = "Int"
	lastShared = g.shared
	g.entry = g.baseState()
	g.run()
	return g.obls, nil
}

func (g *Gen) top(s *State) Term { return g.read(s, TopKey) }

func (g *Gen) run() {
	fn := g.fn
	// parameters
	names := g.con.Params
	if len(names) != 0 && len(names) != len(fn.Params) {
		g.fail("contract lists %d parameters, function has %d", len(names), len(fn.Params))
	}
	g.assert(fmt.Sprintf("(<= 1 %s)", g.top(g.entry)))
	for i, p := range fn.Params {
		srt := g.u.SortOf(p.Type())
		c := fmt.Sprintf("p!%s", sanitize(p.Name()))
		if g.declared[c] {
			c = fmt.Sprintf("p!%s!%d", sanitize(p.Name()), i)
		}
		g.declare(c, srt)
		g.paramConsts = append(g.paramConsts, c)
		g.vals[p] = c
		g.assert(g.u.rangeFact(c, p.Type(), g.top(g.entry)))
		if !g.prog.interiorTaint(g.u).vals[p] {
			// no interior reference can flow into this parameter (taint.go)
			g.assert(g.u.plainFact(c, p.Type()))
		}
		tv := TV{c, srt, p.Type()}
		g.params[p.Name()] = tv
		if len(names) > 0 && names[i] != "_" {
			g.params[names[i]] = tv
		}
	}
	for _, fv := range fn.FreeVars {
		srt := g.u.SortOf(fv.Type())
		c := fmt.Sprintf("fv!%s", sanitize(fv.Name()))
		g.declare(c, srt)
		g.vals[fv] = c
		g.assert(g.u.rangeFact(c, fv.Type(), g.top(g.entry)))
		g.assert(fmt.Sprintf("(< 0 %s)", c))
	}
	// captured variables are distinct variables: their cells do not alias
	if len(fn.FreeVars) > 1 {
		var cells []string
		for _, fv := range fn.FreeVars {
			cells = append(cells, g.vals[fv])
		}
		g.assert("(distinct " + strings.Join(cells, " ") + ")")
	}
	g.results = g.con.Results
	// requires
	env := g.newEnv(g.entry, g.entry)
	if !g.umode {
		for _, r := range g.con.Requires {
			t := g.evalBool(env, r.Expr, r.Src)
			g.assert(t)
		}
	}
	g.findLoops()
	// vacuity: requires satisfiable
	if !g.umode {
		g.addObl("cover", "requires", "true", "true", g.con.Src, true)
	}

	order := g.topoOrder()
	for _, b := range order {
		g.block(b)
	}
	// one obligation per postcondition / invariant clause, covering every
	// return point / back edge (names independent of the number of returns)
	for _, k := range g.deferredOrd {
		d := g.deferred[k]
		g.addObl(d.kind, d.label, "true", "(and "+strings.Join(d.parts, " ")+" true)", d.src, false)
	}
	if len(g.retReach) > 0 && !g.umode {
		g.addObl("cover", "return", "(or "+strings.Join(g.retReach, " ")+" false)", "true", g.con.Src, true)
	}
	if g.retBlocks == 0 && !hasOpt(g.con, "noreturn") {
		// function never returns normally (e.g. infinite loop) — fine
	}
}

func hasOpt(c *spec.FuncContract, k string) bool {
	if c == nil {
		return false
	}
	_, ok := c.Opts[k]
	return ok
}

// findLoops identifies natural loops (back edge t->h where h dominates t).
func (g *Gen) findLoops() {
	fn := g.fn
	for _, b := range fn.Blocks {
		for _, s := range b.Succs {
			if s.Dominates(b) {
				g.backEdge[[2]*ssa.BasicBlock{b, s}] = true
				li := g.loops[s]
				if li == nil {
					li = &loopInfo{header: s, blocks: map[*ssa.BasicBlock]bool{s: true}}
					g.loops[s] = li
				}
				// natural loop body: nodes that reach b without passing h
				stack := []*ssa.BasicBlock{b}
				for len(stack) > 0 {
					n := stack[len(stack)-1]
					stack = stack[:len(stack)-1]
					if li.blocks[n] {
						continue
					}
					li.blocks[n] = true
					stack = append(stack, n.Preds...)
				}
			}
		}
	}
	// ordinal by source position of header (fallback: block index)
	var hs []*ssa.BasicBlock
	for h := range g.loops {
		hs = append(hs, h)
	}
	sort.Slice(hs, func(i, j int) bool {
		pi, pj := loopPos(hs[i]), loopPos(hs[j])
		if pi != pj {
			return pi < pj
		}
		return hs[i].Index < hs[j].Index
	})
	for i, h := range hs {
		g.loops[h].ord = i + 1
	}
	g.loopOrd = hs
}

func loopPos(h *ssa.BasicBlock) int {
	best := 0
	// position of the first instruction with a position inside the loop header or its body
	for _, in := range h.Instrs {
		if p := in.Pos(); p.IsValid() {
			if best == 0 || int(p) < best {
				best = int(p)
			}
		}
	}
	if best == 0 {
		for _, s := range h.Succs {
			for _, in := range s.Instrs {
				if p := in.Pos(); p.IsValid() {
					if best == 0 || int(p) < best {
						best = int(p)
					}
				}
			}
		}
	}
	return best
}

// topoOrder orders blocks topologically ignoring back edges.
func (g *Gen) topoOrder() []*ssa.BasicBlock {
	fn := g.fn
	indeg := map[*ssa.BasicBlock]int{}
	reachable := map[*ssa.BasicBlock]bool{}
	var dfs func(b *ssa.BasicBlock)
	dfs = func(b *ssa.BasicBlock) {
		if reachable[b] {
			return
		}
		reachable[b] = true
		for _, s := range b.Succs {
			dfs(s)
		}
	}
	dfs(fn.Blocks[0])
	if fn.Recover != nil {
		// recover block is only reachable via panics; not modelled
	}
	for _, b := range fn.Blocks {
		if !reachable[b] {
			continue
		}
		for _, s := range b.Succs {
			if !g.backEdge[[2]*ssa.BasicBlock{b, s}] {
				indeg[s]++
			}
		}
	}
	var order []*ssa.BasicBlock
	queue := []*ssa.BasicBlock{fn.Blocks[0]}
	for len(queue) > 0 {
		// pick lowest index for determinism
		sort.Slice(queue, func(i, j int) bool { return queue[i].Index < queue[j].Index })
		b := queue[0]
		queue = queue[1:]
		order = append(order, b)
		for _, s := range b.Succs {
			if g.backEdge[[2]*ssa.BasicBlock{b, s}] {
				continue
			}
			indeg[s]--
			if indeg[s] == 0 {
				queue = append(queue, s)
			}
		}
	}
	return order
}

func (g *Gen) blockName(b *ssa.BasicBlock) string {
	if g.instID > 0 {
		return fmt.Sprintf("R!i%d!b%d", g.instID, b.Index)
	}
	return fmt.Sprintf("R!b%d", b.Index)
}

// block processes one basic block.
func (g *Gen) block(b *ssa.BasicBlock) {
	g.curBlock = b
	var fwdPreds []*ssa.BasicBlock
	for _, p := range b.Preds {
		if g.backEdge[[2]*ssa.BasicBlock{p, b}] {
			continue
		}
		if _, ok := g.reach[p]; ok {
			fwdPreds = append(fwdPreds, p)
		}
	}
	var st *State
	r := g.blockName(b)
	g.declare(r, "Bool")
	if b == g.fn.Blocks[0] {
		st = g.entry
		if g.depth > 0 {
			st = g.inlineEntry
			g.assert("(= " + r + " " + g.inlineReach + ")")
		} else {
			g.assert("(= " + r + " true)")
		}
	} else {
		if len(fwdPreds) == 0 {
			// unreachable (e.g. recover block)
			g.assert("(= " + r + " false)")
			g.reach[b] = r
			g.exit[b] = g.entry
			return
		}
		var conds []Term
		var states []*State
		for _, p := range fwdPreds {
			conds = append(conds, g.edge(p, b))
			states = append(states, g.exit[p])
		}
		g.assert(fmt.Sprintf("(= %s (or %s false))", r, strings.Join(conds, " ")))
		st = g.joinStates(states, conds)
	}
	g.reach[b] = r

	li := g.loops[b]
	// phis (forward edges only)
	phiFwd := map[*ssa.Phi]Term{}
	for _, in := range b.Instrs {
		phi, ok := in.(*ssa.Phi)
		if !ok {
			break
		}
		srt := g.u.SortOf(phi.Type())
		name := g.valName(phi)
		g.declare(name, srt)
		tgt := name
		if li != nil {
			tgt = g.fresh(name+"!pre", srt)
			phiFwd[phi] = tgt
		}
		for i, p := range b.Preds {
			if g.backEdge[[2]*ssa.BasicBlock{p, b}] {
				continue
			}
			if _, ok := g.reach[p]; !ok {
				continue
			}
			if pl := g.places[phi.Edges[i]]; pl != nil {
				g.fail("phi of interior pointers not supported (%s)", phi.Name())
			}
			g.assert(fmt.Sprintf("(=> %s (= %s %s))", g.edge(p, b), tgt, g.val(phi.Edges[i])))
		}
		g.vals[phi] = name
	}
	if li != nil {
		st = g.loopHeader(li, st, phiFwd)
	}
	for _, in := range b.Instrs {
		if _, ok := in.(*ssa.Phi); ok {
			continue
		}
		st = g.instr(in, st)
		if st == nil {
			// block terminated (return / panic)
			g.exit[b] = g.entry
			return
		}
	}
	g.exit[b] = st
	// back edges out of this block: invariant preservation
	for _, s := range b.Succs {
		if g.backEdge[[2]*ssa.BasicBlock{b, s}] {
			g.loopStep(g.loops[s], b, st)
		}
	}
}

// edge returns the condition under which control flows p -> b.
func (g *Gen) edge(p, b *ssa.BasicBlock) Term {
	k := [2]*ssa.BasicBlock{p, b}
	if t, ok := g.edgeCond[k]; ok {
		return t
	}
	rp := g.reach[p]
	t := rp
	if ifi, ok := p.Instrs[len(p.Instrs)-1].(*ssa.If); ok {
		c := g.val(ifi.Cond)
		if p.Succs[0] == b && p.Succs[1] == b {
			t = rp
		} else if p.Succs[0] == b {
			t = fmt.Sprintf("(and %s %s)", rp, c)
		} else {
			t = fmt.Sprintf("(and %s (not %s))", rp, c)
		}
	}
	g.edgeCond[k] = t
	return t
}

func (g *Gen) valName(v ssa.Value) string {
	if g.instID > 0 {
		return fmt.Sprintf("v!i%d!%s", g.instID, sanitize(v.Name()))
	}
	return fmt.Sprintf("v!%s", sanitize(v.Name()))
}

// loopHeader: check invariants on entry, havoc, assume invariants.
func (g *Gen) loopHeader(li *loopInfo, pre *State, phiFwd map[*ssa.Phi]Term) *State {
	b := li.header
	r := g.reach[b]
	invs := g.invariantsFor(li.ord)
	kindEntry := "inv.entry"
	if g.umode {
		kindEntry = "ginv.entry"
	}
	// entry obligations
	env := g.newEnv(pre, g.entry)
	env.loop = li
	env.phiOverride = map[string]TV{}
	for phi, t := range phiFwd {
		if phi.Comment != "" {
			env.phiOverride[phi.Comment] = TV{t, g.u.SortOf(phi.Type()), phi.Type()}
		}
		env.phiOverride[phi.Name()] = TV{t, g.u.SortOf(phi.Type()), phi.Type()}
	}
	li.pre, li.prePhi = pre, env.phiOverride
	for _, inv := range invs {
		goal := g.evalBool(env, inv.Expr, inv.Src)
		g.addObl(kindEntry, fmt.Sprintf("L%d.%s", li.ord, inv.Label), g.guarded(r), goal, inv.Src, false)
		if !g.invUnproved(li, inv) {
			g.chain(fmt.Sprintf("(=> %s %s)", r, goal))
		}
	}
	// havoc everything the loop may modify
	mods, all := g.loopModSet(li)
	var st *State
	if all {
		st = g.havocAll(pre, "L")
	} else {
		st = g.havocSet(pre, mods, "L")
	}
	li.havoc = st
	// phis are fresh constants already (declared, unconstrained) + type facts
	for _, in := range b.Instrs {
		phi, ok := in.(*ssa.Phi)
		if !ok {
			break
		}
		g.assert(g.u.rangeFact(g.vals[phi], phi.Type(), g.top(st)))
	}
	env2 := g.newEnv(st, g.entry)
	env2.loop = li
	assumed := invs
	if !g.umode {
		// the conditional pass may rely on the invariants of the unconditional
		// pass (proved there without the preconditions, hence also valid here)
		assumed = append(append([]*spec.Clause(nil), invs...), g.uInvariantsFor(li.ord)...)
	}
	for _, inv := range assumed {
		if g.invUnproved(li, inv) {
			continue // generated and reported, never assumed
		}
		t := g.evalBool(env2, inv.Expr, inv.Src)
		g.assert(fmt.Sprintf("(=> %s %s)", g.guarded(r), t))
	}
	return st
}

// invUnproved: the entry or step obligation of this invariant clause does not
// discharge on the unchanged tree (SkipClauses), so it must not be assumed.
func (g *Gen) invUnproved(li *loopInfo, inv *spec.Clause) bool {
	n := fmt.Sprintf("L%d.%s", li.ord, inv.Label)
	k := "inv"
	if inv.U {
		k = "ginv"
	}
	return SkipClauses[g.name+"#"+k+".entry."+n] || SkipClauses[g.name+"#"+k+".step."+n]
}

// invariantsFor: the invariants this pass PROVES for loop ord (the conditional
// pass proves the ordinary ones, the unconditional pass the U ones).
func (g *Gen) invariantsFor(ord int) []*spec.Clause {
	var out []*spec.Clause
	for _, inv := range g.con.Invs {
		if (inv.Loop == ord || inv.Loop == 0) && inv.U == g.umode {
			out = append(out, inv)
		}
	}
	return out
}

func (g *Gen) uInvariantsFor(ord int) []*spec.Clause {
	var out []*spec.Clause
	for _, inv := range g.con.Invs {
		if (inv.Loop == ord || inv.Loop == 0) && inv.U {
			out = append(out, inv)
		}
	}
	return out
}

// loopStep: invariant preservation along back edge from -> header.
func (g *Gen) loopStep(li *loopInfo, from *ssa.BasicBlock, st *State) {
	b := li.header
	invs := g.invariantsFor(li.ord)
	if len(invs) == 0 {
		return
	}
	ec := g.edge(from, b)
	env := g.newEnv(st, g.entry)
	env.loop = li
	env.phiOverride = map[string]TV{}
	idx := -1
	for i, p := range b.Preds {
		if p == from {
			idx = i
		}
	}
	for _, in := range b.Instrs {
		phi, ok := in.(*ssa.Phi)
		if !ok {
			break
		}
		tv := TV{g.val(phi.Edges[idx]), g.u.SortOf(phi.Type()), phi.Type()}
		if phi.Comment != "" {
			env.phiOverride[phi.Comment] = tv
		}
		env.phiOverride[phi.Name()] = tv
	}
	for _, inv := range invs {
		goal := g.evalBool(env, inv.Expr, inv.Src)
		ks := "inv.step"
		if g.umode {
			ks = "ginv.step"
		}
		g.deferObl(ks, fmt.Sprintf("L%d.%s", li.ord, inv.Label), ec, goal, inv.Src)
	}
}

// loopModSet computes the heap components possibly written inside the loop.
func (g *Gen) loopModSet(li *loopInfo) (map[string]bool, bool) {
	mods := map[string]bool{}
	all := false
	for b := range li.blocks {
		for _, in := range b.Instrs {
			m, a := g.instrMods(in)
			if a {
				all = true
			}
			for k := range m {
				mods[k] = true
			}
		}
	}
	return mods, all
}

// GenFunctionInfo is GenFunction plus the keys of the callee contracts that
// were assumed while generating (for the trusted-base report).
func GenFunctionInfo(prog *Program, u *Universe, fn *ssa.Function, con *spec.FuncContract) ([]*Obligation, []string, error) {
	lastShared = nil
	obls, err := GenFunction(prog, u, fn, con)
	var used []string
	if lastShared != nil {
		for k := range lastShared.assumed {
			c := prog.Specs.Contracts[k]
			if c == nil {
				c = prog.Specs.Contracts[strings.Replace(k, "::", "::iface ", 1)]
			}
			if c != nil && (c.Trusted || c.Iface) {
				used = append(used, k)
			} else if c == nil && strings.Contains(k, " ") {
				used = append(used, k) // built-in model / assumed clause / call-through rule
			}
		}
		for k := range lastShared.external {
			used = append(used, "uncontracted dependency call (results havocked): "+k)
		}
		for k := range lastShared.uncontracted {
			used = append(used, "uncontracted in-repo call (mod-set havocked): "+k)
		}
		for _, a := range lastShared.abstracted {
			used = append(used, a)
		}
	}
	sort.Strings(used)
	return obls, used, err
}

var lastShared *shared

type deferredObl struct {
	kind, label, src string
	parts            []string
}

// deferObl records one conjunct (reach => goal) of an obligation that is
// emitted once at the end of the function.
func (g *Gen) deferObl(kind, label string, reach, goal Term, src string) {
	if g.deferred == nil {
		g.deferred = map[string]*deferredObl{}
	}
	k := kind + "." + label
	d := g.deferred[k]
	if d == nil {
		d = &deferredObl{kind: kind, label: label, src: src}
		g.deferred[k] = d
		g.deferredOrd = append(g.deferredOrd, k)
	}
	d.parts = append(d.parts, fmt.Sprintf("(=> %s %s)", reach, goal))
}

func (g *Gen) abstractedOnce(msg string) {
	for _, a := range g.abstracted {
		if a == msg {
			return
		}
	}
	g.abstracted = append(g.abstracted, msg)
}

// SkipClauses: postcondition clauses of verified functions that do not
// discharge on the unchanged tree (committed in /verif/unproved_clauses.json);
// they are never assumed at call sites.
var SkipClauses = map[string]bool{}
