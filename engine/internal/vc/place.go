package vc

import (
	"fmt"
	"go/constant"
	"go/types"
	"math/big"
	"strings"

	"golang.org/x/tools/go/ssa"
)

// Place is a symbolic memory location known at generation time.
type Place struct {
	Comp   string // component key
	Ref    Term   // object reference ("" for globals)
	Idx    Term   // element index for M components ("" otherwise)
	Path   []Step // navigation inside a by-value aggregate stored at the location
	Type   types.Type
	Struct bool // Ref points at a whole struct object (fields in H components)
}

type Step struct {
	SI    *StructInfo
	Field int
	Index Term
}

func isAggregate(t types.Type) bool {
	switch types.Unalias(t).Underlying().(type) {
	case *types.Struct, *types.Array:
		return true
	}
	return false
}

func deref(t types.Type) types.Type {
	if p, ok := types.Unalias(t).Underlying().(*types.Pointer); ok {
		return p.Elem()
	}
	return nil
}

func fldRef(r Term, k int) Term { return fmt.Sprintf("(fld %s %d)", r, k) }

// placeOfRef builds the place designated by a reference r of type *T.
func (g *Gen) placeOfRef(r Term, elem types.Type) *Place {
	switch x := types.Unalias(elem).Underlying().(type) {
	case *types.Struct:
		return &Place{Ref: r, Type: elem, Struct: true}
	case *types.Array:
		return &Place{Comp: g.u.ElemComp(x.Elem()), Ref: r, Type: elem}
	}
	return &Place{Comp: g.u.CellComp(elem), Ref: r, Type: elem}
}

// placeOf returns the place a pointer-typed SSA value designates.
func (g *Gen) placeOf(v ssa.Value) *Place {
	if p := g.places[v]; p != nil {
		return p
	}
	if gl, ok := v.(*ssa.Global); ok {
		et := deref(gl.Type())
		if isAggregate(et) {
			return g.placeOfRef(g.globalRef(gl), et)
		}
		return &Place{Comp: g.u.GlobalComp(gl.Pkg.Pkg.Path(), gl.Name(), et), Type: et}
	}
	et := deref(v.Type())
	if et == nil {
		g.fail("placeOf non-pointer %s", v)
	}
	return g.placeOfRef(g.val(v), et)
}

func (g *Gen) applyPath(x Term, path []Step) Term {
	for _, s := range path {
		if s.SI != nil {
			x = fmt.Sprintf("(%s %s)", s.SI.Fields[s.Field].Acc, x)
		} else {
			x = fmt.Sprintf("(select %s %s)", x, s.Index)
		}
	}
	return x
}

func (g *Gen) updPath(x Term, path []Step, val Term) Term {
	if len(path) == 0 {
		return val
	}
	s := path[0]
	if s.SI != nil {
		parts := make([]string, len(s.SI.Fields))
		for i, f := range s.SI.Fields {
			cur := fmt.Sprintf("(%s %s)", f.Acc, x)
			if i == s.Field {
				parts[i] = g.updPath(cur, path[1:], val)
			} else {
				parts[i] = cur
			}
		}
		return "(" + s.SI.Ctor + " " + strings.Join(parts, " ") + ")"
	}
	return fmt.Sprintf("(store %s %s %s)", x, s.Index, g.updPath(fmt.Sprintf("(select %s %s)", x, s.Index), path[1:], val))
}

// loadStruct constructs the datatype value of the struct object at ref r.
func (g *Gen) loadStruct(st *State, r Term, t types.Type) Term {
	si := g.u.StructOf(t)
	if len(si.Fields) == 0 {
		return si.Ctor
	}
	parts := make([]string, len(si.Fields))
	for i, f := range si.Fields {
		parts[i] = g.loadAt(st, r, t, i, f.Type)
	}
	return "(" + si.Ctor + " " + strings.Join(parts, " ") + ")"
}

// loadAt loads field i (type ft) of the struct object of type t at ref r.
func (g *Gen) loadAt(st *State, r Term, t types.Type, i int, ft types.Type) Term {
	switch x := types.Unalias(ft).Underlying().(type) {
	case *types.Struct:
		return g.loadStruct(st, fldRef(r, i), ft)
	case *types.Array:
		return fmt.Sprintf("(select %s %s)", g.read(st, g.u.ElemComp(x.Elem())), fldRef(r, i))
	}
	return fmt.Sprintf("(select %s %s)", g.read(st, g.u.FieldComp(t, i)), r)
}

// storeStruct writes datatype value v into the struct object at ref r.
func (g *Gen) storeStruct(st *State, r Term, t types.Type, v Term) *State {
	si := g.u.StructOf(t)
	for i, f := range si.Fields {
		fv := fmt.Sprintf("(%s %s)", f.Acc, v)
		switch x := types.Unalias(f.Type).Underlying().(type) {
		case *types.Struct:
			st = g.storeStruct(st, fldRef(r, i), f.Type, fv)
		case *types.Array:
			k := g.u.ElemComp(x.Elem())
			st = g.update(st, k, fmt.Sprintf("(store %s %s %s)", g.read(st, k), fldRef(r, i), fv))
		default:
			k := g.u.FieldComp(t, i)
			st = g.update(st, k, fmt.Sprintf("(store %s %s %s)", g.read(st, k), r, fv))
		}
	}
	return st
}

// load reads the value at place p.
func (g *Gen) load(st *State, p *Place) Term {
	if p.Struct {
		return g.loadStruct(st, p.Ref, p.Type)
	}
	x := g.read(st, p.Comp)
	if p.Ref != "" {
		x = fmt.Sprintf("(select %s %s)", x, p.Ref)
	}
	if p.Idx != "" {
		x = fmt.Sprintf("(select %s %s)", x, p.Idx)
	}
	return g.applyPath(x, p.Path)
}

// store writes val at place p.
func (g *Gen) store(st *State, p *Place, val Term) *State {
	if p.Struct {
		return g.storeStruct(st, p.Ref, p.Type, val)
	}
	cur := g.read(st, p.Comp)
	var nv Term
	switch {
	case p.Ref == "":
		nv = g.updPath(cur, p.Path, val)
	case p.Idx == "":
		nv = fmt.Sprintf("(store %s %s %s)", cur, p.Ref, g.updPath(fmt.Sprintf("(select %s %s)", cur, p.Ref), p.Path, val))
	default:
		row := fmt.Sprintf("(select %s %s)", cur, p.Ref)
		el := fmt.Sprintf("(select %s %s)", row, p.Idx)
		nv = fmt.Sprintf("(store %s %s (store %s %s %s))", cur, p.Ref, row, p.Idx, g.updPath(el, p.Path, val))
	}
	return g.update(st, p.Comp, nv)
}

// placeMods returns the component keys a store to p may change.
func (g *Gen) placeMods(p *Place, out map[string]bool) {
	if p.Struct {
		g.structComps(p.Type, out)
		return
	}
	out[p.Comp] = true
}

func (g *Gen) structComps(t types.Type, out map[string]bool) {
	si := g.u.StructOf(t)
	for i, f := range si.Fields {
		switch x := types.Unalias(f.Type).Underlying().(type) {
		case *types.Struct:
			g.structComps(f.Type, out)
		case *types.Array:
			out[g.u.ElemComp(x.Elem())] = true
		default:
			out[g.u.FieldComp(t, i)] = true
		}
	}
}

// fieldAddr computes &x.f for pointer-typed x.
func (g *Gen) fieldAddr(in *ssa.FieldAddr) {
	st := deref(in.X.Type())
	si := g.u.StructOf(st)
	ft := si.Fields[in.Field].Type
	if base := g.places[in.X]; base != nil || isGlobal(in.X) {
		if base == nil {
			base = g.placeOf(in.X)
		}
		if !base.Struct {
			np := *base
			np.Path = append(append([]Step(nil), base.Path...), Step{SI: si, Field: in.Field})
			np.Type = ft
			g.places[in] = &np
			return
		}
		// struct object place behaves like a ref
		g.fieldOfRef(in, base.Ref, st, in.Field, ft)
		return
	}
	g.fieldOfRef(in, g.val(in.X), st, in.Field, ft)
}

func isGlobal(v ssa.Value) bool { _, ok := v.(*ssa.Global); return ok }

func (g *Gen) fieldOfRef(in ssa.Value, r Term, st types.Type, field int, ft types.Type) {
	if isAggregate(ft) {
		// inline aggregate lives at a derived reference
		g.vals[in] = fldRef(r, field)
		return
	}
	g.places[in] = &Place{Comp: g.u.FieldComp(st, field), Ref: r, Type: ft}
}

// val returns the SMT term of an SSA value.
func (g *Gen) val(v ssa.Value) Term {
	if t, ok := g.vals[v]; ok {
		return t
	}
	switch x := v.(type) {
	case *ssa.Const:
		return g.constant(x)
	case *ssa.Function:
		return fmt.Sprint(g.u.FnID(FuncKey(x)))
	case *ssa.Global:
		if isAggregate(deref(x.Type())) {
			return g.globalRef(x)
		}
		g.fail("address of global %s escapes", x.Name())
	}
	if g.places[v] != nil {
		g.fail("interior pointer %s (%s) used as a value", v.Name(), v)
	}
	g.fail("value %s (%T) used before definition", v.Name(), v)
	return ""
}

func (g *Gen) constant(c *ssa.Const) Term {
	t := types.Unalias(c.Type())
	if c.Value == nil {
		return g.u.ZeroValue(t)
	}
	switch c.Value.Kind() {
	case constant.Bool:
		if constant.BoolVal(c.Value) {
			return "true"
		}
		return "false"
	case constant.String:
		return g.u.StrLit(constant.StringVal(c.Value))
	case constant.Int:
		bi, ok := new(big.Int).SetString(c.Value.ExactString(), 10)
		if !ok {
			g.fail("bad int constant %s", c.Value)
		}
		return intLit(bi)
	case constant.Float:
		if basicInt(t) != nil {
			if i64, ok := constant.Int64Val(constant.ToInt(c.Value)); ok {
				return intLitI(i64)
			}
		}
		g.u.Extra(fmt.Sprintf("(declare-const float.c%s Float)", sanitize(c.Value.ExactString())))
		return "float.c" + sanitize(c.Value.ExactString())
	}
	g.fail("unsupported constant %s", c)
	return ""
}

// globalRef: package-level variables of struct/array type are objects at
// constant (negative, pairwise distinct) references.
func (g *Gen) globalRef(gl *ssa.Global) Term {
	name := "gref." + sanitize(gl.Pkg.Pkg.Path()+"."+gl.Name())
	id := g.u.FnID("global:" + name)
	g.u.Extra(fmt.Sprintf("(define-fun %s () Int (fld 0 (- %d)))", name, id))
	return name
}
