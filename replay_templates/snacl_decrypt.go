package snacl

// Replay scenario for CryptoKey.Decrypt obligations (protocol-class: the
// model is a path, not an input): for plaintext lengths 0..40, every
// truncation, every single-bit flip and a foreign key must be refused, and the
// untouched ciphertext must decrypt to the plaintext.

import (
	"bytes"
	"fmt"
	"testing"
)

func TestGovcReplay(t *testing.T) {
	_ = govcModel(t)
	key, err := GenerateCryptoKey()
	if err != nil {
		t.Fatal(err)
	}
	other, _ := GenerateCryptoKey()
	bad := 0
	report := func(format string, args ...interface{}) {
		if bad < 5 {
			fmt.Printf(format+"\n", args...)
		}
		bad++
	}
	for n := 0; n <= 40; n++ {
		pt := bytes.Repeat([]byte{byte(n + 1)}, n)
		ct, err := key.Encrypt(pt)
		if err != nil {
			t.Fatal(err)
		}
		if got, err := key.Decrypt(ct); err != nil || !bytes.Equal(got, pt) {
			report("round trip failed for length %d: %v", n, err)
		}
		if got, err := other.Decrypt(ct); err == nil {
			report("foreign key accepted for length %d (%d bytes returned)", n, len(got))
		}
		for l := 0; l < len(ct); l++ {
			if got, err := key.Decrypt(ct[:l]); err == nil {
				report("truncation to %d of %d bytes accepted (%d bytes returned)", l, len(ct), len(got))
			}
		}
		for bit := 0; bit < len(ct)*8; bit++ {
			c := append([]byte(nil), ct...)
			c[bit/8] ^= 1 << (bit % 8)
			if _, err := key.Decrypt(c); err == nil {
				report("bit flip %d accepted for plaintext length %d", bit, n)
			}
		}
	}
	if bad > 0 {
		fmt.Printf("REPLAY-VIOLATION %d forged/truncated/foreign ciphertexts accepted or round trips failed\n", bad)
		return
	}
	fmt.Println("REPLAY-OK")
}
