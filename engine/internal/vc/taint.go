package vc

import (
	"fmt"
	"go/types"

	"golang.org/x/tools/go/ssa"
	"golang.org/x/tools/go/ssa/ssautil"
)

// Interior references. A pointer or slice may denote memory that lives inline
// in another object (`&x.f` of a struct/array field, `x.arr[:]`): in the memory
// model these are derived references fld(r,k) < 0. Range facts therefore assume
// nothing about the sign of a reference — except where this analysis shows
// that no interior reference can flow there: then the value is "plain" (>= 0),
// which is what lets a proof conclude that a parameter slice does not alias an
// inline array.
//
// The analysis is a flow-insensitive, field-based may-taint analysis over all
// functions of /repo: sources are the address-of-inline-aggregate operations;
// taint flows through phis, conversions, slicing, interface boxing, stores to
// and loads from heap components, map elements, call arguments (static callees
// and, for interface calls, every in-repo method of that name), closure
// bindings and returned values. Assumption (listed in the evidence): values
// returned by dependency functions are not interior references into objects of
// /repo.
type taint struct {
	why   map[string]string
	vals  map[ssa.Value]bool
	comps map[string]bool
	rets  map[*ssa.Function]bool         // some result may be interior
	retIx map[*ssa.Function]map[int]bool // which results
}

func (p *Program) interiorTaint(u *Universe) *taint {
	if p.taint != nil {
		return p.taint
	}
	t := &taint{vals: map[ssa.Value]bool{}, comps: map[string]bool{}, rets: map[*ssa.Function]bool{}, retIx: map[*ssa.Function]map[int]bool{}, why: map[string]string{}}
	var curIn ssa.Instruction
	p.taint = t
	var fns []*ssa.Function
	byName := map[string][]*ssa.Function{}
	for f := range ssautil.AllFunctions(p.SSA) {
		if f.Pkg == nil && f.Parent() == nil {
			continue
		}
		pk := f.Package()
		if pk == nil || pk.Pkg == nil || !p.InRepo(pk.Pkg.Path()) || len(f.Blocks) == 0 {
			continue
		}
		fns = append(fns, f)
		if f.Signature.Recv() != nil {
			byName[f.Name()] = append(byName[f.Name()], f)
		}
	}
	changed := true
	tv := func(v ssa.Value) bool { return t.vals[v] }
	mark := func(v ssa.Value) {
		if v != nil && !t.vals[v] && canHoldRef(v.Type(), 0) {
			t.vals[v] = true
			changed = true
			if curIn != nil && curIn.Parent() != nil {
				if prm, ok := v.(*ssa.Parameter); ok {
					t.why["param "+prm.Parent().String()+" "+prm.Name()] = curIn.Parent().String() + ": " + curIn.String()
				} else if v.Parent() != nil {
					t.why["val "+v.Parent().String()+" "+v.Name()] = curIn.String()
				}
			}
		}
	}
	markComp := func(k string) {
		if k != "" && !t.comps[k] {
			t.comps[k] = true
			changed = true
			if curIn != nil && curIn.Parent() != nil {
				t.why["comp "+k] = curIn.Parent().String() + ": " + curIn.String()
			}
		}
	}
	// component a memory address designates (field-based; "" if unknown)
	var compOf func(addr ssa.Value) string
	compOf = func(addr ssa.Value) string {
		switch a := addr.(type) {
		case *ssa.FieldAddr:
			st := deref(a.X.Type())
			if st == nil {
				return ""
			}
			return safeComp(func() string { return u.FieldComp(st, a.Field) })
		case *ssa.IndexAddr:
			switch xt := types.Unalias(a.X.Type()).Underlying().(type) {
			case *types.Slice:
				return safeComp(func() string { return u.ElemComp(xt.Elem()) })
			case *types.Pointer:
				if at, ok := types.Unalias(xt.Elem()).Underlying().(*types.Array); ok {
					return safeComp(func() string { return u.ElemComp(at.Elem()) })
				}
			}
		case *ssa.Global:
			if et := deref(a.Type()); et != nil && a.Pkg != nil {
				return safeComp(func() string { return u.GlobalComp(a.Pkg.Pkg.Path(), a.Name(), et) })
			}
		default:
			if et := deref(addr.Type()); et != nil {
				return safeComp(func() string { return u.CellComp(et) })
			}
		}
		return ""
	}
	// all pointer/slice-holding components of an aggregate type
	var aggComps func(tt types.Type, out *[]string, depth int)
	aggComps = func(tt types.Type, out *[]string, depth int) {
		if depth > 4 {
			return
		}
		switch x := types.Unalias(tt).Underlying().(type) {
		case *types.Struct:
			for i := 0; i < x.NumFields(); i++ {
				ft := x.Field(i).Type()
				if isAggregate(ft) {
					aggComps(ft, out, depth+1)
				} else if holdsRef(ft) {
					*out = append(*out, safeComp(func() string { return u.FieldComp(tt, i) }))
				}
			}
		case *types.Array:
			if isAggregate(x.Elem()) {
				aggComps(x.Elem(), out, depth+1)
			} else if holdsRef(x.Elem()) {
				*out = append(*out, safeComp(func() string { return u.ElemComp(x.Elem()) }))
			}
		}
	}
	for changed {
		changed = false
		for _, f := range fns {
			for _, b := range f.Blocks {
				for _, in := range b.Instrs {
					curIn = in
					switch x := in.(type) {
					case *ssa.FieldAddr:
						st := deref(x.X.Type())
						if st != nil {
							if s, ok := types.Unalias(st).Underlying().(*types.Struct); ok && isAggregate(s.Field(x.Field).Type()) {
								mark(x)
							}
						}
					case *ssa.IndexAddr:
						var et types.Type
						switch xt := types.Unalias(x.X.Type()).Underlying().(type) {
						case *types.Slice:
							et = xt.Elem()
						case *types.Pointer:
							if at, ok := types.Unalias(xt.Elem()).Underlying().(*types.Array); ok {
								et = at.Elem()
							}
						}
						if et != nil && isAggregate(et) {
							mark(x)
						}
					case *ssa.Slice:
						if tv(x.X) {
							mark(x)
						}
					case *ssa.Phi:
						for _, e := range x.Edges {
							if tv(e) {
								mark(x)
							}
						}
					case *ssa.ChangeType:
						if tv(x.X) {
							mark(x)
						}
					case *ssa.Convert:
						if tv(x.X) {
							mark(x)
						}
					case *ssa.MakeInterface:
						if tv(x.X) {
							mark(x)
						}
					case *ssa.ChangeInterface:
						if tv(x.X) {
							mark(x)
						}
					case *ssa.TypeAssert:
						if tv(x.X) {
							mark(x)
						}
					case *ssa.Extract:
						// (marked per result index at the call)
					case *ssa.Field:
						if tv(x.X) {
							mark(x)
						}
					case *ssa.Index:
						if tv(x.X) {
							mark(x)
						}
					case *ssa.UnOp:
						if x.Op.String() == "*" {
							if isAggregate(x.Type()) {
								var cs []string
								aggComps(x.Type(), &cs, 0)
								for _, c := range cs {
									if t.comps[c] {
										mark(x)
									}
								}
							} else if t.comps[compOf(x.X)] {
								mark(x)
							}
						} else if x.Op.String() == "<-" {
							// channel receive: not tracked (assumed plain)
						}
					case *ssa.Store:
						if tv(x.Val) {
							if isAggregate(x.Val.Type()) {
								var cs []string
								aggComps(x.Val.Type(), &cs, 0)
								for _, c := range cs {
									markComp(c)
								}
							} else {
								markComp(compOf(x.Addr))
							}
						}
					case *ssa.MapUpdate:
						if mt, ok := types.Unalias(x.Map.Type()).Underlying().(*types.Map); ok && tv(x.Value) {
							_, mv := u.MapComps(mt)
							markComp(mv)
						}
					case *ssa.Lookup:
						if mt, ok := types.Unalias(x.X.Type()).Underlying().(*types.Map); ok {
							_, mv := u.MapComps(mt)
							if t.comps[mv] {
								mark(x)
							}
						}
					case *ssa.MakeClosure:
						cf := x.Fn.(*ssa.Function)
						for i, bnd := range x.Bindings {
							if tv(bnd) && i < len(cf.FreeVars) {
								mark(cf.FreeVars[i])
							}
						}
					case *ssa.Return:
						for i, r := range x.Results {
							if tv(r) {
								if t.retIx[f] == nil {
									t.retIx[f] = map[int]bool{}
								}
								if !t.retIx[f][i] {
									t.retIx[f][i] = true
									changed = true
									if _, isErr := types.Unalias(r.Type()).Underlying().(*types.Interface); !isErr {
										t.rets[f] = true
									}
									t.why["ret "+f.String()] = r.Name() + " = " + r.String()
								}
							}
						}
					}
					if ci, ok := in.(ssa.CallInstruction); ok {
						c := ci.Common()
						var callees []*ssa.Function
						args := c.Args
						if c.IsInvoke() {
							for _, m := range byName[c.Method.Name()] {
								if len(m.Params) == len(c.Args)+1 {
									callees = append(callees, m)
								}
							}
							args = append([]ssa.Value{c.Value}, c.Args...)
						} else {
							switch cv := c.Value.(type) {
							case *ssa.Function:
								callees = append(callees, cv)
							case *ssa.MakeClosure:
								callees = append(callees, cv.Fn.(*ssa.Function))
							default:
								// call of a function value: any in-repo function literal
								// of the same arity may be the callee
								for _, g := range fns {
									if g.Parent() != nil && len(g.Params) == len(c.Args) && types.Identical(g.Signature, c.Signature()) {
										callees = append(callees, g)
									}
								}
							}
						}
						for _, callee := range callees {
							for i, a := range args {
								if tv(a) && i < len(callee.Params) {
									mark(callee.Params[i])
								}
							}
							if v, ok := in.(ssa.Value); ok && len(t.retIx[callee]) > 0 {
								if _, isTuple := v.Type().(*types.Tuple); isTuple {
									// the components are marked at their Extract
									for _, ref := range *v.Referrers() {
										if ex, ok := ref.(*ssa.Extract); ok && t.retIx[callee][ex.Index] {
											mark(ex)
										}
									}
								} else if t.retIx[callee][0] {
									mark(v)
								}
							}
						}
					}
				}
			}
		}
	}
	return t
}

// canHoldRef: a value of this type is, or contains, a pointer/slice/interface.
func canHoldRef(t types.Type, depth int) bool {
	if depth > 5 {
		return true
	}
	switch x := types.Unalias(t).Underlying().(type) {
	case *types.Pointer, *types.Slice, *types.Interface:
		return true
	case *types.Struct:
		for i := 0; i < x.NumFields(); i++ {
			if canHoldRef(x.Field(i).Type(), depth+1) {
				return true
			}
		}
	case *types.Array:
		return canHoldRef(x.Elem(), depth+1)
	case *types.Tuple:
		for i := 0; i < x.Len(); i++ {
			if canHoldRef(x.At(i).Type(), depth+1) {
				return true
			}
		}
	}
	return false
}

func holdsRef(t types.Type) bool {
	switch types.Unalias(t).Underlying().(type) {
	case *types.Pointer, *types.Slice, *types.Interface:
		return true
	}
	return false
}

func safeComp(f func() string) (k string) {
	defer func() {
		if r := recover(); r != nil {
			k = ""
		}
	}()
	return f()
}

// plainFact: x (of pointer or slice type, or a struct whose fields are) is not
// an interior reference.
func (u *Universe) plainFact(x Term, t types.Type) Term {
	switch types.Unalias(t).Underlying().(type) {
	case *types.Pointer:
		return fmt.Sprintf("(<= 0 %s)", x)
	case *types.Slice:
		return fmt.Sprintf("(<= 0 (s.base %s))", x)
	}
	return ""
}

// TaintReport lists the tainted components and parameters (diagnostics).
func (p *Program) TaintReport(u *Universe) []string {
	t := p.interiorTaint(u)
	var out []string
	for k := range t.comps {
		out = append(out, "comp "+k+"   <= "+t.why["comp "+k])
	}
	for v := range t.vals {
		if prm, ok := v.(*ssa.Parameter); ok {
			k := "param " + prm.Parent().String() + " " + prm.Name()
			out = append(out, k+"   <= "+t.why[k])
		}
	}
	for k, w := range t.why {
		if len(k) > 4 && k[:4] == "val " {
			out = append(out, k+"   <= "+w)
		}
	}
	for f, b := range t.rets {
		if b {
			out = append(out, "ret "+f.String()+"   <= "+t.why["ret "+f.String()])
		}
	}
	return out
}
