package vc

import (
	"go/types"
	"strings"

	"govc/internal/spec"

	"golang.org/x/tools/go/ssa"
)

type modResult struct {
	mods map[string]bool
	all  bool
}

var modCache = map[*ssa.Function]*modResult{}
var modVisiting = map[*ssa.Function]bool{}

// ModSet computes (an over-approximation of) the heap components and ghost
// variables a function with a body may write, transitively.
func (p *Program) ModSet(u *Universe, fn *ssa.Function) (map[string]bool, bool) {
	if r, ok := modCache[fn]; ok {
		return copySet(r.mods), r.all
	}
	if modVisiting[fn] {
		return map[string]bool{}, false
	}
	modVisiting[fn] = true
	defer delete(modVisiting, fn)
	res := &modResult{mods: map[string]bool{}}
	for _, b := range fn.Blocks {
		for _, in := range b.Instrs {
			switch x := in.(type) {
			case *ssa.Store:
				storeModsU(u, x.Addr, res.mods)
			case *ssa.MapUpdate:
				mt := types.Unalias(x.Map.Type()).Underlying().(*types.Map)
				d, v := u.MapComps(mt)
				res.mods[d], res.mods[v] = true, true
			case *ssa.Alloc:
				res.mods[TopKey] = true
				typeCompsU(u, deref(x.Type()), res.mods)
			case *ssa.MakeSlice:
				res.mods[TopKey] = true
				res.mods[u.ElemComp(types.Unalias(x.Type()).Underlying().(*types.Slice).Elem())] = true
			case *ssa.MakeMap:
				res.mods[TopKey] = true
				d, v := u.MapComps(types.Unalias(x.Type()).Underlying().(*types.Map))
				res.mods[d], res.mods[v] = true, true
			case *ssa.MakeInterface:
				res.mods[TopKey] = true
				res.mods[u.BoxComp(x.X.Type())] = true
			case *ssa.MakeChan:
				res.mods[TopKey] = true
			case *ssa.Convert:
				if st, ok := types.Unalias(x.Type()).Underlying().(*types.Slice); ok {
					res.mods[TopKey] = true
					res.mods[u.ElemComp(st.Elem())] = true
				}
			case ssa.CallInstruction:
				m, all := p.callMods(u, x.Common(), fn)
				if all {
					res.all = true
				}
				for k := range m {
					res.mods[k] = true
				}
			case *ssa.MakeClosure:
				// the closure may run later in this function or in a callee
				m, all := p.ModSet(u, x.Fn.(*ssa.Function))
				if all {
					res.all = true
				}
				for k := range m {
					res.mods[k] = true
				}
			}
		}
	}
	if len(modVisiting) == 1 {
		modCache[fn] = res
	}
	return copySet(res.mods), res.all
}

func copySet(m map[string]bool) map[string]bool {
	o := make(map[string]bool, len(m))
	for k := range m {
		o[k] = true
	}
	return o
}

func (p *Program) contractModsStatic(u *Universe, con *spec.FuncContract) (map[string]bool, bool, bool) {
	if con.Pure {
		return map[string]bool{}, false, true
	}
	if !con.HasMod {
		return nil, false, false
	}
	g := &Gen{prog: p, u: u, shared: &shared{declared: map[string]bool{}, ordinals: map[string]int{}}}
	mods := map[string]bool{TopKey: true}
	all := false
	func() {
		defer func() {
			if r := recover(); r != nil {
				if _, ok := r.(genError); ok {
					all = true
					return
				}
				panic(r)
			}
		}()
		env := &Env{g: g, vars: map[string]TV{}, pkg: con.Pkg, src: con.Src}
		for _, m := range con.Modifies {
			switch {
			case m == "*":
				all = true
			case m == "nothing":
			case strings.HasPrefix(m, "@"):
				e, err := spec.ParseExpr(m)
				if err != nil {
					all = true
					continue
				}
				mods[g.heapRefKey(env, e.(*spec.HeapRef))] = true
			default:
				if srt, ok := p.Specs.Ghosts[m]; ok {
					mods[u.GhostComp(m, srt)] = true
				} else {
					all = true
				}
			}
		}
	}()
	return mods, all, true
}

// callMods: components a call may write.
func (p *Program) callMods(u *Universe, c *ssa.CallCommon, caller *ssa.Function) (map[string]bool, bool) {
	mods := map[string]bool{}
	argBased := func(args []ssa.Value) {
		mods[TopKey] = true
		for _, a := range args {
			argModsU(u, a, mods)
		}
	}
	closureMods := func(m map[string]bool) (map[string]bool, bool) {
		for _, a := range c.Args {
			if mc, ok := a.(*ssa.MakeClosure); ok {
				cm, all := p.ModSet(u, mc.Fn.(*ssa.Function))
				if all {
					return m, true
				}
				for k := range cm {
					m[k] = true
				}
			}
		}
		return m, false
	}
	if c.IsInvoke() {
		if con := p.IfaceContract(c.Method); con != nil {
			if m, all, ok := p.contractModsStatic(u, con); ok {
				if all || con.Pure {
					return m, all
				}
				return closureMods(m)
			}
			return closureMods(map[string]bool{TopKey: true})
		}
		argBased(append([]ssa.Value{c.Value}, c.Args...))
		return mods, false
	}
	var fn *ssa.Function
	switch x := c.Value.(type) {
	case *ssa.Builtin:
		switch x.Name() {
		case "append", "copy":
			if st, ok := types.Unalias(c.Args[0].Type()).Underlying().(*types.Slice); ok {
				mods[u.ElemComp(st.Elem())] = true
				mods[TopKey] = true
			}
		case "delete":
			mt := types.Unalias(c.Args[0].Type()).Underlying().(*types.Map)
			d, v := u.MapComps(mt)
			mods[d], mods[v] = true, true
		}
		return mods, false
	case *ssa.Function:
		fn = x
	case *ssa.MakeClosure:
		fn = x.Fn.(*ssa.Function)
	default:
		// dynamic call: parameter contract or argument-reachable memory
		if caller != nil {
			name := ""
			switch y := c.Value.(type) {
			case *ssa.Parameter:
				name = y.Name()
			case *ssa.UnOp:
				if fv, ok := y.X.(*ssa.FreeVar); ok {
					name = fv.Name()
				}
			}
			if name != "" {
				if con := p.Specs.Contracts[FuncKey(caller)+"@"+name]; con != nil {
					if m, all, ok := p.contractModsStatic(u, con); ok {
						return m, all
					}
					return map[string]bool{TopKey: true}, false
				}
			}
		}
		argBased(c.Args)
		return mods, false
	}
	if isModelled(fn) {
		argBased(c.Args)
		return mods, false
	}
	if con := p.ContractFor(fn); con != nil {
		if m, all, ok := p.contractModsStatic(u, con); ok {
			return m, all
		}
		if len(fn.Blocks) > 0 && !con.Trusted {
			m, all := p.ModSet(u, fn)
			m[TopKey] = true
			return m, all
		}
		return map[string]bool{TopKey: true}, false
	}
	if len(fn.Blocks) > 0 {
		m, all := p.ModSet(u, fn)
		return m, all
	}
	argBased(c.Args)
	return mods, false
}

func typeCompsU(u *Universe, t types.Type, mods map[string]bool) {
	switch x := types.Unalias(t).Underlying().(type) {
	case *types.Struct:
		structCompsU(u, t, mods)
	case *types.Array:
		mods[u.ElemComp(x.Elem())] = true
	default:
		mods[u.CellComp(t)] = true
	}
}

func structCompsU(u *Universe, t types.Type, out map[string]bool) {
	si := u.StructOf(t)
	for i, f := range si.Fields {
		switch x := types.Unalias(f.Type).Underlying().(type) {
		case *types.Struct:
			structCompsU(u, f.Type, out)
		case *types.Array:
			out[u.ElemComp(x.Elem())] = true
		default:
			out[u.FieldComp(t, i)] = true
		}
	}
}

func argModsU(u *Universe, a ssa.Value, mods map[string]bool) {
	switch a.(type) {
	case *ssa.FieldAddr, *ssa.IndexAddr, *ssa.Global:
		storeModsU(u, a, mods)
		return
	}
	switch t := types.Unalias(a.Type()).Underlying().(type) {
	case *types.Slice:
		mods[u.ElemComp(t.Elem())] = true
	case *types.Pointer:
		typeCompsU(u, t.Elem(), mods)
	case *types.Map:
		d, vv := u.MapComps(t)
		mods[d], mods[vv] = true, true
	}
}

// rootOf walks FieldAddr/IndexAddr chains to the base address value.
func rootOf(addr ssa.Value) ssa.Value {
	for {
		switch x := addr.(type) {
		case *ssa.FieldAddr:
			addr = x.X
		case *ssa.IndexAddr:
			if _, ok := types.Unalias(x.X.Type()).Underlying().(*types.Pointer); ok {
				addr = x.X
			} else {
				return addr
			}
		default:
			return addr
		}
	}
}

// storeModsU: components a store through addr may change.
func storeModsU(u *Universe, addr ssa.Value, mods map[string]bool) {
	if gl, ok := rootOf(addr).(*ssa.Global); ok {
		et := deref(gl.Type())
		mods[u.GlobalComp(gl.Pkg.Pkg.Path(), gl.Name(), et)] = true
		return
	}
	switch x := addr.(type) {
	case *ssa.FieldAddr:
		st := deref(x.X.Type())
		si := u.StructOf(st)
		ft := si.Fields[x.Field].Type
		// field of a by-value element (path inside a row)?
		if ia, ok := rootOf(x.X).(*ssa.IndexAddr); ok {
			if sl, ok := types.Unalias(ia.X.Type()).Underlying().(*types.Slice); ok {
				mods[u.ElemComp(sl.Elem())] = true
			}
		}
		if isAggregate(ft) {
			typeCompsU(u, ft, mods)
		} else {
			mods[u.FieldComp(st, x.Field)] = true
		}
	case *ssa.IndexAddr:
		switch t := types.Unalias(x.X.Type()).Underlying().(type) {
		case *types.Slice:
			mods[u.ElemComp(t.Elem())] = true
		case *types.Pointer:
			at := types.Unalias(t.Elem()).Underlying().(*types.Array)
			mods[u.ElemComp(at.Elem())] = true
			// array inside a by-value row element
			if ia, ok := rootOf(x.X).(*ssa.IndexAddr); ok {
				if sl, ok := types.Unalias(ia.X.Type()).Underlying().(*types.Slice); ok {
					mods[u.ElemComp(sl.Elem())] = true
				}
			}
		}
	default:
		typeCompsU(u, deref(addr.Type()), mods)
	}
}

var mutGlobals map[string]bool

// mutableGlobals: package-level variables of loaded /repo packages written
// outside package initialisation.
func (p *Program) mutableGlobals() map[string]bool {
	if mutGlobals != nil {
		return mutGlobals
	}
	mutGlobals = map[string]bool{}
	u := NewUniverse()
	for path, done := range p.built {
		if !done {
			continue
		}
		sp := p.SSA.Package(p.Pkgs[path].Types)
		var visit func(f *ssa.Function)
		visit = func(f *ssa.Function) {
			if f.Name() == "init" || strings.HasPrefix(f.Name(), "init#") {
				return
			}
			for _, b := range f.Blocks {
				for _, in := range b.Instrs {
					if st, ok := in.(*ssa.Store); ok {
						if gl, ok := rootOf(st.Addr).(*ssa.Global); ok {
							mutGlobals[u.GlobalComp(gl.Pkg.Pkg.Path(), gl.Name(), deref(gl.Type()))] = true
						}
					}
				}
			}
			for _, a := range f.AnonFuncs {
				visit(a)
			}
		}
		for _, m := range sp.Members {
			switch x := m.(type) {
			case *ssa.Function:
				visit(x)
			case *ssa.Type:
				for _, t := range []types.Type{x.Type(), types.NewPointer(x.Type())} {
					ms := p.SSA.MethodSets.MethodSet(t)
					for i := 0; i < ms.Len(); i++ {
						if f := p.SSA.MethodValue(ms.At(i)); f != nil {
							visit(f)
						}
					}
				}
			}
		}
	}
	return mutGlobals
}
