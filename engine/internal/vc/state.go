package vc

import (
	"fmt"
	"go/types"
	"strings"
)

// State is a lazily evaluated map from heap-component / ghost key to SMT term.
type State struct {
	id     int
	kind   int // 0 base, 1 update, 2 havocAll, 3 havocSet, 4 join
	parent *State
	key    string
	val    Term
	set    map[string]bool
	preds  []*State
	conds  []Term
	cache  map[string]Term
	tag    string
}

const (
	stBase = iota
	stUpdate
	stHavocAll
	stHavocSet
	stJoin
)

func (g *Gen) newState(kind int) *State {
	g.stateN++
	return &State{id: g.stateN, kind: kind, cache: map[string]Term{}}
}

func (g *Gen) baseState() *State { return g.newState(stBase) }

func (g *Gen) update(s *State, key string, val Term) *State {
	// keep terms small: a large component value is named once instead of being
	// copied into every later term that mentions it
	if len(val) > 400 || strings.Contains(val, "(ite ") {
		if srt, ok := g.u.compSort[key]; ok {
			g.compN++
			name := fmt.Sprintf("%s!u%d", g.compName(key), g.compN)
			g.declare(name, srt)
			g.assert(fmt.Sprintf("(= %s %s)", name, val))
			val = name
		}
	}
	n := g.newState(stUpdate)
	n.parent, n.key, n.val = s, key, val
	return n
}

func (g *Gen) havocAll(s *State, tag string) *State {
	n := g.newState(stHavocAll)
	n.parent, n.tag = s, tag
	return n
}

func (g *Gen) havocSet(s *State, keys map[string]bool, tag string) *State {
	if len(keys) == 0 {
		return s
	}
	n := g.newState(stHavocSet)
	n.parent, n.set, n.tag = s, keys, tag
	return n
}

func (g *Gen) joinStates(preds []*State, conds []Term) *State {
	if len(preds) == 1 {
		return preds[0]
	}
	same := true
	for _, p := range preds[1:] {
		if p != preds[0] {
			same = false
		}
	}
	if same {
		return preds[0]
	}
	n := g.newState(stJoin)
	n.preds, n.conds = preds, conds
	return n
}

// immutableKey reports keys that no call can change (constant globals).
func (g *Gen) immutableKey(key string) bool {
	if strings.HasPrefix(key, "Glob|") {
		return !g.prog.mutableGlobals()[key]
	}
	return false
}

func (g *Gen) compName(key string) string {
	return sanitize(strings.NewReplacer("|", "_", " ", "", "(", "", ")", "", ",", "_").Replace(key))
}

func (g *Gen) freshComp(key string, tag string, top Term) Term {
	srt, ok := g.u.compSort[key]
	if !ok {
		panic(fmt.Sprintf("component %s has no registered sort", key))
	}
	g.compN++
	name := fmt.Sprintf("%s!%s%d", g.compName(key), tag, g.compN)
	g.declare(name, srt)
	g.compWF(key, name, top)
	return name
}

// compWF asserts that every value held in a freshly introduced component
// version is well-formed for its Go type (all stores keep this invariant:
// arithmetic wraps, havocked values get range facts).
func (g *Gen) compWF(key string, name Term, top Term) {
	if strings.HasPrefix(key, "MD|") {
		// the nil map has no keys (writes to it panic: safety.nilmap)
		g.assert(fmt.Sprintf("(= (select %s 0) ((as const %s) false))", name, arrayElemSort(g.u.compSort[key])))
		return
	}
	t := g.u.compElem[key]
	if t == nil {
		return
	}
	// integer ranges are asserted at each load in the code; the quantified
	// well-formedness fact is kept only for values with structure (slices,
	// references, interfaces, structs), where contracts read them directly
	if basicInt(t) != nil && key[0] != 'H' {
		// (struct fields keep it: contracts read integer fields directly)
		return
	}
	if at, ok := types.Unalias(t).Underlying().(*types.Array); ok && basicInt(at.Elem()) != nil {
		return
	}
	if b, ok := types.Unalias(t).Underlying().(*types.Basic); ok && b.Info()&types.IsBoolean != 0 {
		return
	}
	var sel Term
	binder := "((r!w Int))"
	switch key[0] {
	case 'H', 'C', 'B':
		sel = "(select " + name + " r!w)"
	case 'M':
		sel = "(select (select " + name + " r!w) i!w)"
		binder = "((r!w Int) (i!w Int))"
	case 'G': // Glob|
		if f := g.u.rangeFact(name, t, top); f != "" {
			g.assert(f)
		}
		return
	default:
		return
	}
	if f := g.u.rangeFact(sel, t, top); f != "" {
		if pf := g.u.plainFact(sel, t); pf != "" && !g.prog.interiorTaint(g.u).comps[key] {
			// no interior reference is ever stored in this component (taint.go)
			f = "(and " + f + " " + pf + ")"
		}
		g.assert(fmt.Sprintf("(forall %s (! %s :pattern (%s)))", binder, f, sel))
	}
}

// read returns the term of component key in state s.
func (g *Gen) read(s *State, key string) Term {
	if t, ok := s.cache[key]; ok {
		return t
	}
	var t Term
	switch s.kind {
	case stBase:
		srt, ok := g.u.compSort[key]
		if !ok {
			panic(fmt.Sprintf("component %s has no registered sort", key))
		}
		name := g.compName(key) + "!0"
		if !g.declared[name] {
			g.declare(name, srt)
			if key != TopKey {
				g.compWF(key, name, g.read(s, TopKey))
			}
		}
		t = name
	case stUpdate:
		if s.key == key {
			t = s.val
		} else {
			t = g.read(s.parent, key)
		}
	case stHavocAll:
		if g.immutableKey(key) {
			t = g.read(s.parent, key)
		} else if key == TopKey {
			old := g.read(s.parent, key)
			t = g.freshComp(key, "h", "")
			g.assert(fmt.Sprintf("(<= %s %s)", old, t))
		} else {
			t = g.freshComp(key, "h", g.read(s, TopKey))
		}
	case stHavocSet:
		if s.set[key] && !g.immutableKey(key) {
			if key == TopKey {
				old := g.read(s.parent, key)
				t = g.freshComp(key, "h", "")
				g.assert(fmt.Sprintf("(<= %s %s)", old, t))
			} else {
				t = g.freshComp(key, "h", g.read(s, TopKey))
			}
		} else {
			t = g.read(s.parent, key)
		}
	case stJoin:
		vals := make([]Term, len(s.preds))
		same := true
		for i, p := range s.preds {
			vals[i] = g.read(p, key)
			if vals[i] != vals[0] {
				same = false
			}
		}
		if same {
			t = vals[0]
		} else {
			jt := ""
			if key != TopKey {
				jt = g.read(s, TopKey)
			}
			t = g.freshComp(key, "j", jt)
			for i := range s.preds {
				g.assert(fmt.Sprintf("(=> %s (= %s %s))", s.conds[i], t, vals[i]))
			}
		}
	}
	s.cache[key] = t
	return t
}
