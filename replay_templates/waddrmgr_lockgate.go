package waddrmgr

// Replay for the lock-gate obligations of C05 (scenario style): a real manager
// is created and unlocked, a private key is derived by path (which fills the
// derived-key cache), the manager is locked, and then every private-material
// accessor named by the failed obligation is asked again. While locked each of
// them must fail and return no key. Wiping obligations of lock() are replayed
// by looking at the clear-text holders after Lock().

import (
	"fmt"
	"strings"
	"testing"

	"github.com/btcsuite/btcd/btcec/v2"
	"github.com/btcsuite/btcd/btcutil/hdkeychain"
	"github.com/btcsuite/btcwallet/walletdb"
)

func TestGovcReplay(t *testing.T) {
	m := govcModel(t)
	obl := m["$obligation"]
	tearDown, db, mgr := setupManager(t)
	defer tearDown()

	scopedMgr, err := mgr.FetchScopedKeyManager(KeyScopeBIP0044)
	if err != nil {
		fmt.Println("setup failed:", err)
		return
	}
	keyPath := DerivationPath{
		InternalAccount: 0,
		Account:         hdkeychain.HardenedKeyStart,
		Branch:          0,
		Index:           3,
	}

	// unlock, derive a key by path (DB path, then the cached path), lock
	var unlockedKey *btcec.PrivateKey
	err = walletdb.Update(db, func(tx walletdb.ReadWriteTx) error {
		ns := tx.ReadWriteBucket(waddrmgrNamespaceKey)
		if err := mgr.Unlock(ns, privPassphrase); err != nil {
			return err
		}
		ma, err := scopedMgr.DeriveFromKeyPath(ns, keyPath)
		if err != nil {
			return err
		}
		if _, err := ma.(ManagedPubKeyAddress).PrivKey(); err != nil {
			return err
		}
		unlockedKey, err = scopedMgr.DeriveFromKeyPathCache(keyPath)
		return err
	})
	if err != nil || unlockedKey == nil {
		fmt.Println("setup failed:", err)
		return
	}
	want := unlockedKey.Serialize()

	// scenario "right passphrase must unlock" (C05: "the current private passphrase always
	// unlocks it, whatever accounts and addresses have been created or loaded"): a watch-only
	// (imported xpub) account is created in this non-watching-only wallet and loaded into the
	// account cache, the manager is locked, and then unlocked with the RIGHT passphrase.
	// Selected by an obligation name containing "right_pass" or "keyless".
	if strings.Contains(obl, "right_pass") || strings.Contains(obl, "keyless") {
		seed := make([]byte, 32)
		seed[0] = 9
		root, _ := hdkeychain.NewMaster(seed, mgr.ChainParams())
		acct, _ := root.Derive(hdkeychain.HardenedKeyStart + 44) // nolint:staticcheck
		acctPub, _ := acct.Neuter()
		err := walletdb.Update(db, func(tx walletdb.ReadWriteTx) error {
			ns := tx.ReadWriteBucket(waddrmgrNamespaceKey)
			num, err := scopedMgr.NewAccountWatchingOnly(ns, "xpubacct", acctPub, 0, nil)
			if err != nil {
				return err
			}
			_, err = scopedMgr.AccountProperties(ns, num) // loads the account into the cache
			return err
		})
		if err != nil {
			fmt.Println("setup failed:", err)
			return
		}
		if err := mgr.Lock(); err != nil {
			fmt.Println("setup failed: Lock:", err)
			return
		}
		err = walletdb.View(db, func(tx walletdb.ReadTx) error {
			return mgr.Unlock(tx.ReadBucket(waddrmgrNamespaceKey), privPassphrase)
		})
		if err != nil || mgr.IsLocked() {
			fmt.Printf("Unlock with the right passphrase failed while a watch-only account is cached: %v (locked=%v)\n", err, mgr.IsLocked())
			fmt.Println("REPLAY-VIOLATION the current private passphrase does not unlock the manager")
			return
		}
		fmt.Println("REPLAY-OK")
		return
	}

	// obligation DeriveFromKeyPathCache#pre...deriveKey.key_present: on an UNLOCKED manager the
	// cached derivation asks for the private child of an account that has no private key
	// (a watch-only / imported-xpub account): the nil account key is dereferenced.
	if strings.Contains(obl, "key_present") {
		panicked := false
		func() {
			defer func() {
				if r := recover(); r != nil {
					fmt.Println("unlocked manager: DeriveFromKeyPathCache on a watch-only account panicked:", r)
					panicked = true
				}
			}()
			seed := make([]byte, 32)
			seed[0] = 9
			root, _ := hdkeychain.NewMaster(seed, mgr.ChainParams())
			acct, _ := root.Derive(hdkeychain.HardenedKeyStart + 44) // nolint:staticcheck
			acctPub, _ := acct.Neuter()
			var num uint32
			err := walletdb.Update(db, func(tx walletdb.ReadWriteTx) error {
				ns := tx.ReadWriteBucket(waddrmgrNamespaceKey)
				var err error
				num, err = scopedMgr.NewAccountWatchingOnly(ns, "xpubacct", acctPub, 0, nil)
				if err != nil {
					return err
				}
				_, err = scopedMgr.AccountProperties(ns, num) // loads the account into the cache
				return err
			})
			if err != nil {
				fmt.Println("setup failed:", err)
				return
			}
			_, err = scopedMgr.DeriveFromKeyPathCache(DerivationPath{InternalAccount: num, Branch: 0, Index: 0})
			fmt.Println("DeriveFromKeyPathCache on a watch-only account returned:", err)
		}()
		if panicked {
			fmt.Println("REPLAY-VIOLATION nil account private key dereferenced")
			return
		}
		fmt.Println("REPLAY-OK")
		return
	}
	if err := mgr.Lock(); err != nil {
		fmt.Println("setup failed: Lock:", err)
		return
	}
	if !mgr.IsLocked() {
		fmt.Println("REPLAY-VIOLATION manager not locked after Lock()")
		return
	}

	bad := 0
	switch {
	case strings.Contains(obl, "DeriveFromKeyPathCache"), strings.Contains(obl, "derived_keys_purged"):
		// (1) the accessor itself
		k, err := scopedMgr.DeriveFromKeyPathCache(keyPath)
		if err == nil && k != nil {
			same := string(k.Serialize()) == string(want)
			fmt.Printf("locked manager: DeriveFromKeyPathCache(%v) returned a private key, err=nil (same key as when unlocked: %v)\n",
				keyPath, same)
			bad++
		}
		// (2) the cache still holds the derived private key after lock()
		if ck, err := scopedMgr.privKeyCache.Get(keyPath); err == nil && ck != nil {
			fmt.Printf("locked manager: derived-key cache still holds %d entries\n", scopedMgr.privKeyCache.Len())
			bad++
		}
	default:
		fmt.Println("no replay scenario for", obl)
		return
	}
	if bad > 0 {
		fmt.Printf("REPLAY-VIOLATION private key material reachable while locked (%d observations)\n", bad)
		return
	}
	fmt.Println("REPLAY-OK")
}
