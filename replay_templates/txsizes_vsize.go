package txsizes

// Replay of EstimateVirtualSize obligations on the real code: builds a real
// wire.MsgTx with the model's input mix, worst-case (low-S DER / Schnorr)
// signature sizes, the model's number of outputs plus the change output, and
// measures its virtual size with btcd's own serializer. The estimate under
// test must not be below it.

import (
	"fmt"
	"testing"

	"github.com/btcsuite/btcd/wire"
)

func TestGovcReplay(t *testing.T) {
	m := govcModel(t)
	clampN := func(v int64) int {
		if v < 0 {
			return 0
		}
		if v > 70000 {
			return 70000
		}
		return int(v)
	}
	p2pkh := clampN(m.Int("p!numP2PKHIns", 0))
	p2tr := clampN(m.Int("p!numP2TRIns", 0))
	p2wpkh := clampN(m.Int("p!numP2WPKHIns", 0))
	nested := clampN(m.Int("p!numNestedP2WPKHIns", 0))
	nOut := clampN(m.SliceLen("p!txOuts", 1))
	chg := clampN(m.Int("p!changeScriptSize", 0))
	if chg > 10000 {
		chg = 10000
	}

	tx := wire.NewMsgTx(2)
	add := func(n, sigScript int, wit []int) {
		for i := 0; i < n; i++ {
			in := wire.NewTxIn(&wire.OutPoint{Index: uint32(i)}, make([]byte, sigScript), nil)
			for _, w := range wit {
				in.Witness = append(in.Witness, make([]byte, w))
			}
			tx.AddTxIn(in)
		}
	}
	add(p2pkh, 1+72+1+33, nil)
	add(p2wpkh, 0, []int{72, 33})
	add(nested, 23, []int{72, 33})
	add(p2tr, 0, []int{65})
	var outs []*wire.TxOut
	for i := 0; i < nOut; i++ {
		o := wire.NewTxOut(1000, make([]byte, 22))
		outs = append(outs, o)
		tx.AddTxOut(o)
	}
	if chg > 0 {
		tx.AddTxOut(wire.NewTxOut(1000, make([]byte, chg)))
	}
	weight := tx.SerializeSizeStripped()*3 + tx.SerializeSize()
	real := (weight + 3) / 4
	est := EstimateVirtualSize(p2pkh, p2tr, p2wpkh, nested, outs, chg)
	fmt.Printf("inputs p2pkh=%d p2tr=%d p2wpkh=%d nested=%d outputs=%d changeScriptSize=%d: estimate=%d real-worst-case=%d\n",
		p2pkh, p2tr, p2wpkh, nested, nOut, chg, est, real)
	if est < real {
		fmt.Println("REPLAY-VIOLATION estimate below the real signed virtual size")
		return
	}
	fmt.Println("REPLAY-OK")
}
