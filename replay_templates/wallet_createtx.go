package wallet

// Replay scenario for the txToOutputs obligations (C06): a wallet holding ONE
// coin of 100000 sat is asked to pay 150000 sat with the explicit input
// selection [coin, coin]. A transaction that spends only eligible coins, each
// once, cannot exist; the request must be refused. Also: an explicit selection
// of a coin that is not eligible (locked) must be refused.

import (
	"fmt"
	"testing"

	"github.com/btcsuite/btcd/txscript"
	"github.com/btcsuite/btcd/wire"
	"github.com/btcsuite/btcwallet/waddrmgr"
)

func TestGovcReplay(t *testing.T) {
	_ = govcModel(t)
	w, cleanup := testWallet(t)
	defer cleanup()
	keyScope := waddrmgr.KeyScopeBIP0084
	addr, err := w.CurrentAddress(0, keyScope)
	if err != nil {
		t.Fatalf("address: %v", err)
	}
	script, err := txscript.PayToAddrScript(addr)
	if err != nil {
		t.Fatalf("script: %v", err)
	}
	incoming := &wire.MsgTx{TxIn: []*wire.TxIn{{}}, TxOut: []*wire.TxOut{wire.NewTxOut(100000, script)}}
	addUtxo(t, w, incoming)
	coin := wire.OutPoint{Hash: incoming.TxHash(), Index: 0}
	bad := 0

	// the same coin selected twice, paying more than the wallet owns
	atx, err := w.txToOutputs([]*wire.TxOut{{PkScript: script, Value: 150000}}, nil, nil, 0, 1, 1000,
		CoinSelectionLargest, false, []wire.OutPoint{coin, coin}, alwaysAllowUtxo)
	if err == nil && atx != nil {
		seen := map[wire.OutPoint]int{}
		var inTotal int64
		for _, in := range atx.Tx.TxIn {
			seen[in.PreviousOutPoint]++
		}
		for _, v := range atx.PrevInputValues {
			inTotal += int64(v)
		}
		for op, n := range seen {
			if n > 1 {
				fmt.Printf("txToOutputs returned a signed, validated transaction that spends %v %d times (claimed input total %d sat, the wallet owns 100000 sat, outputs pay %d sat)\n",
					op, n, inTotal, atx.Tx.TxOut[0].Value)
				bad++
			}
		}
	} else {
		fmt.Printf("duplicate selection refused: %v\n", err)
	}

	// a locked coin selected explicitly must be refused
	w.LockOutpoint(coin)
	atx, err = w.txToOutputs([]*wire.TxOut{{PkScript: script, Value: 10000}}, nil, nil, 0, 1, 1000,
		CoinSelectionLargest, true, []wire.OutPoint{coin}, alwaysAllowUtxo)
	if err == nil {
		fmt.Printf("a locked (ineligible) coin was accepted as explicitly selected input\n")
		bad++
	}
	w.UnlockOutpoint(coin)

	if bad > 0 {
		fmt.Printf("REPLAY-VIOLATION %d: created transaction does not spend each eligible coin at most once\n", bad)
		return
	}
	fmt.Println("REPLAY-OK")
}
