#!/bin/bash
# usage: confirm_seed.sh <seed_dir> <property> <name>
# Confirms a seeded change independently in a scratch worktree (outside /repo and /verif):
#  1. patch applies and the touched module builds, 2. existing tests of the touched packages pass with it,
#  3. the demonstration fails with it, 4. the demonstration passes without it.
# Then runs our check against the worktree with the change applied and stores everything under /verif/seeded/<prop>/<name>/.
set -u
export GOFLAGS=-mod=mod GOPROXY=off GOSUMDB=off GOTOOLCHAIN=local
src=$1; prop=$2; name=$3
out=/verif/seeded/$prop/$name
mkdir -p "$out"
wt=$(mktemp -d /tmp/confirm_wt_XXXX); rmdir "$wt"
git -C /repo worktree add -q --detach "$wt" HEAD || exit 2
trap 'git -C /repo worktree remove --force "$wt" >/dev/null 2>&1' EXIT
place=$(python3 -c "import json;print(json.load(open('$src/meta.json'))['demo_place'].split()[0].rstrip('/'))")
demo=$(ls $src/demo*_test.go $src/*_test.go 2>/dev/null | head -1)
# module of the demo dir
mod=$wt/$place; while [ ! -f "$mod/go.mod" ]; do mod=$(dirname "$mod"); done
rel=./${place#${mod#$wt/}}; rel=${rel%/}; [ "$rel" = "./$place" ] && rel=./$place
rel=$(python3 -c "import os;print('./'+os.path.relpath('$wt/$place','$mod'))")
log=$out/confirm.log; : > $log
run_demo() { (cd "$mod" && cp "$demo" "$wt/$place/zz_seed_demo_test.go" && go test -count=1 -timeout 300s -run 'Demo|Seed|C[0-9][0-9]' "$rel" >>$log 2>&1; rc=$?; rm -f "$wt/$place/zz_seed_demo_test.go"; exit $rc); }
echo "== demo WITHOUT patch" >>$log; run_demo; without=$?
(cd $wt && git apply "$src/patch.diff") || { echo "patch does not apply" >>$log; exit 2; }
pkgs=$(cd $wt && git diff --name-only | xargs -n1 dirname | sort -u)
echo "== existing tests WITH patch: $pkgs" >>$log
tests=0
for p in $pkgs; do m=$wt/$p; while [ ! -f "$m/go.mod" ]; do m=$(dirname "$m"); done; r=$(python3 -c "import os;print('./'+os.path.relpath('$wt/$p','$m'))"); (cd $m && go test -count=1 -timeout 900s "$r" >>$log 2>&1) || tests=1; done
echo "== demo WITH patch" >>$log; run_demo; with=$?
# our check: the registered quick check, run against the scratch worktree with the change applied
# (REPO_DIR; the same as applying the change to /repo, running the check and reverting — see try_seed.sh)
cp "$src/patch.diff" "$out/patch.diff"; cp "$demo" "$out/$(basename $demo)"
chk=$(REPO_DIR="$wt" VERIF_DIR=/verif GOVC_NO_EVIDENCE=1 /verif/bin/govc check --property "$prop" --tier quick 2>&1; echo "exit=$?")
(cd $wt && git checkout -- .)
echo "$chk" | grep -E "VIOLATION|property $prop|exit=" > $out/check.txt
caught=$(echo "$chk" | grep -c "^VIOLATION")
python3 - <<PY
import json
m=json.load(open('$src/meta.json'))
m['confirmed']={'demo_passes_without_patch': $without==0, 'existing_tests_pass_with_patch': $tests==0, 'demo_fails_with_patch': $with!=0,
  'how':'tools/confirm_seed.sh in a scratch git worktree of /repo (removed afterwards); log in confirm.log'}
m['caught_by_quick_check']= $caught>0
m['violations']=[l.split('replay=')[1].split('/')[-1].replace('.json','').split(' ')[0] for l in open('$out/check.txt') if l.startswith('VIOLATION')]
json.dump(m,open('$out/meta.json','w'),indent=1)
print('$prop/$name', m['confirmed'], 'caught' if m['caught_by_quick_check'] else 'MISSED')
PY
