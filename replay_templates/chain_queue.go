package chain

// Replay scenario for the ConcurrentQueue obligations (C18): a producer
// enqueues 0..n-1 in bursts larger than the buffer while a slow consumer
// drains; the consumer must see exactly 0..n-1 in order, for buffer sizes 0..3.
// (A schedule-dependent defect may need several runs; the scenario runs 40.)

import (
	"fmt"
	"testing"
	"time"
)

func TestGovcReplay(t *testing.T) {
	_ = govcModel(t)
	bad := 0
	for run := 0; run < 40 && bad == 0; run++ {
		for buf := 0; buf <= 3 && bad == 0; buf++ {
			q := NewConcurrentQueue(buf)
			q.Start()
			const n = 300
			go func() {
				for i := 0; i < n; i++ {
					q.ChanIn() <- i
					if i%37 == 0 {
						time.Sleep(50 * time.Microsecond)
					}
				}
			}()
			timeout := time.After(5 * time.Second)
			for want := 0; want < n; want++ {
				if want%5 == run%5 {
					time.Sleep(20 * time.Microsecond)
				}
				select {
				case v := <-q.ChanOut():
					if v.(int) != want {
						fmt.Printf("buffer %d: received %v, want %d\n", buf, v, want)
						bad++
						want = n
					}
				case <-timeout:
					fmt.Printf("buffer %d: item %d never delivered (lost or producer blocked)\n", buf, want)
					bad++
					want = n
				}
			}
			q.Stop()
		}
	}
	if bad > 0 {
		fmt.Println("REPLAY-VIOLATION items lost, duplicated or reordered")
		return
	}
	fmt.Println("REPLAY-OK")
}
