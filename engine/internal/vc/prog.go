// Package vc is the verification-condition generator: go/ssa functions plus
// contracts in, SMT-LIB obligations out.
package vc

import (
	"fmt"
	"go/constant"
	"go/token"
	"go/types"
	"os"
	"path/filepath"
	"sort"
	"strings"

	"govc/internal/spec"

	"golang.org/x/tools/go/packages"
	"golang.org/x/tools/go/ssa"
	"golang.org/x/tools/go/ssa/ssautil"
)

// Module describes one Go module of /repo.
type Module struct {
	Dir  string // absolute directory
	Path string // module path
}

// Program is everything loaded for one run.
type Program struct {
	Fset     *token.FileSet
	Pkgs     map[string]*packages.Package
	SSA      *ssa.Program
	Specs    *SpecDB
	RepoRoot string
	Loaded   []string // import paths of /repo packages loaded from the working tree
	built    map[string]bool
	Warnings []string
	taint    *taint // may-be-interior-reference analysis (taint.go), computed on first use
}

// SpecDB is the union of all parsed contract files.
type SpecDB struct {
	Sorts     map[string]bool
	Consts    map[string]string
	Ghosts    map[string]string
	GhostList []string
	GhostPkg  map[string]string // ghost -> modelled package
	Funcs     map[string]*spec.SpecFunc
	FuncOrder []string
	Axioms    []*spec.Clause
	AxiomPkg  map[*spec.Clause]string
	Lemmas    []*spec.Clause
	Contracts map[string]*spec.FuncContract // key: pkgpath + "::" + name
	Files     []*spec.File
	ClausePkg map[*spec.Clause]string
	Counters  map[string][]string // function key -> call-counter ghosts
	OkCounters map[string][]string // function key -> success-counter ghosts
}

func newSpecDB() *SpecDB {
	return &SpecDB{
		Sorts: map[string]bool{}, Consts: map[string]string{}, Ghosts: map[string]string{},
		Funcs: map[string]*spec.SpecFunc{}, Contracts: map[string]*spec.FuncContract{},
		AxiomPkg: map[*spec.Clause]string{}, ClausePkg: map[*spec.Clause]string{},
		Counters: map[string][]string{}, OkCounters: map[string][]string{},
	}
}

func (db *SpecDB) add(f *spec.File) error {
	db.Files = append(db.Files, f)
	for _, s := range f.Sorts {
		db.Sorts[s] = true
	}
	for _, c := range f.Consts {
		db.Consts[c.Name] = c.Sort
	}
	for _, g := range f.Ghosts {
		if _, ok := db.Ghosts[g.Name]; !ok {
			db.GhostList = append(db.GhostList, g.Name)
		}
		db.Ghosts[g.Name] = g.Sort
		if db.GhostPkg == nil {
			db.GhostPkg = map[string]string{}
		}
		db.GhostPkg[g.Name] = f.GhostPkg[g.Name]
	}
	for _, c := range f.Counters {
		if c.OnOK {
			db.OkCounters[c.Func] = append(db.OkCounters[c.Func], c.Ghost)
		} else {
			db.Counters[c.Func] = append(db.Counters[c.Func], c.Ghost)
		}
	}
	for _, sf := range f.Funcs {
		if _, dup := db.Funcs[sf.Name]; dup {
			return fmt.Errorf("%s: duplicate spec func %s", sf.Src, sf.Name)
		}
		db.Funcs[sf.Name] = sf
		db.FuncOrder = append(db.FuncOrder, sf.Name)
	}
	for _, a := range f.Axioms {
		db.Axioms = append(db.Axioms, a)
		db.ClausePkg[a] = f.Pkg
	}
	for _, l := range f.Lemmas {
		db.Lemmas = append(db.Lemmas, l)
		db.ClausePkg[l] = f.Pkg
	}
	for _, c := range f.Contracts {
		key := c.Pkg + "::" + c.Name
		if c.Iface {
			key = c.Pkg + "::iface " + c.Name
		}
		if _, dup := db.Contracts[key]; dup {
			return fmt.Errorf("%s: duplicate contract for %s", c.Src, key)
		}
		db.Contracts[key] = c
	}
	return nil
}

// RepoModules lists the six modules of /repo.
func RepoModules(root string) []Module {
	return []Module{
		{root, "github.com/btcsuite/btcwallet"},
		{filepath.Join(root, "walletdb"), "github.com/btcsuite/btcwallet/walletdb"},
		{filepath.Join(root, "wtxmgr"), "github.com/btcsuite/btcwallet/wtxmgr"},
		{filepath.Join(root, "wallet/txauthor"), "github.com/btcsuite/btcwallet/wallet/txauthor"},
		{filepath.Join(root, "wallet/txrules"), "github.com/btcsuite/btcwallet/wallet/txrules"},
		{filepath.Join(root, "wallet/txsizes"), "github.com/btcsuite/btcwallet/wallet/txsizes"},
	}
}

// moduleFor returns the module that owns import path p (longest prefix).
func moduleFor(mods []Module, p string) *Module {
	var best *Module
	for i := range mods {
		m := &mods[i]
		if p == m.Path || strings.HasPrefix(p, m.Path+"/") {
			if best == nil || len(m.Path) > len(best.Path) {
				best = m
			}
		}
	}
	return best
}

// Load loads the given /repo packages (import paths) from the working tree
// with build tag verif, builds SSA for them, and parses their contract files
// plus the external contract directory.
func Load(repoRoot string, pkgPaths []string, externalDir string) (*Program, error) {
	mods := RepoModules(repoRoot)
	for _, p := range pkgPaths {
		if moduleFor(mods, p) == nil {
			return nil, fmt.Errorf("package %s is not in /repo", p)
		}
	}
	prog := &Program{Pkgs: map[string]*packages.Package{}, RepoRoot: repoRoot, built: map[string]bool{}}
	fset := token.NewFileSet()
	prog.Fset = fset
	// One ssa.Program needs one type universe, and every /repo module must be
	// read from the working tree (the root module otherwise compiles wtxmgr,
	// walletdb, txauthor, ... from the module cache): load through an
	// alternative go.mod (-modfile) = /repo/go.mod + replace directives.
	scratch, err := scratchModule(repoRoot, mods)
	if err != nil {
		return nil, err
	}
	defer os.RemoveAll(scratch)
	cfg := &packages.Config{
		Mode: packages.NeedName | packages.NeedFiles | packages.NeedCompiledGoFiles | packages.NeedImports |
			packages.NeedDeps | packages.NeedTypes | packages.NeedSyntax | packages.NeedTypesInfo |
			packages.NeedTypesSizes | packages.NeedModule,
		Dir:        repoRoot,
		Fset:       fset,
		BuildFlags: []string{"-tags=verif", "-modfile=" + filepath.Join(scratch, "go.mod")},
		Env: append(os.Environ(), "GOFLAGS=-mod=mod", "GOPROXY=off", "GOSUMDB=off",
			"GOTOOLCHAIN=local", "GOWORK=off"),
	}
	initial, err := packages.Load(cfg, pkgPaths...)
	if err != nil {
		return nil, err
	}
	for _, p := range initial {
		for _, e := range p.Errors {
			return nil, fmt.Errorf("load %s: %v", p.PkgPath, e)
		}
	}
	sprog, _ := ssautil.AllPackages(initial, ssa.InstantiateGenerics|ssa.GlobalDebug)
	prog.SSA = sprog
	packages.Visit(initial, nil, func(p *packages.Package) {
		prog.Pkgs[p.PkgPath] = p
	})
	for _, p := range initial {
		prog.Loaded = append(prog.Loaded, p.PkgPath)
		prog.BuildPkg(p.PkgPath)
	}
	sort.Strings(prog.Loaded)

	// contracts
	db := newSpecDB()
	prog.Specs = db
	if externalDir != "" {
		files, _ := filepath.Glob(filepath.Join(externalDir, "*.spec"))
		sort.Strings(files)
		for _, f := range files {
			sf, err := spec.ParseFile(f, "")
			if err != nil {
				return nil, err
			}
			if err := db.add(sf); err != nil {
				return nil, err
			}
		}
	}
	var repoPkgs []*packages.Package
	for path, p := range prog.Pkgs {
		if prog.InRepo(path) {
			repoPkgs = append(repoPkgs, p)
		}
	}
	sort.Slice(repoPkgs, func(i, j int) bool { return repoPkgs[i].PkgPath < repoPkgs[j].PkgPath })
	for _, p := range repoPkgs {
		for _, gf := range p.CompiledGoFiles {
			if !strings.HasPrefix(filepath.Base(gf), "zz_verif_contracts") {
				continue
			}
			sf, err := spec.ParseFile(gf, p.PkgPath)
			if err != nil {
				return nil, err
			}
			if err := db.add(sf); err != nil {
				return nil, err
			}
		}
	}
	return prog, nil
}

// scratchModule writes a throw-away module whose go.mod replaces all /repo
// modules with their working-tree directories, so that one load sees the
// current source of every module.
func scratchModule(repoRoot string, mods []Module) (string, error) {
	dir, err := os.MkdirTemp("", "govc-mod-")
	if err != nil {
		return "", err
	}
	rootMod, err := os.ReadFile(filepath.Join(repoRoot, "go.mod"))
	if err != nil {
		return "", err
	}
	var b strings.Builder
	b.Write(rootMod)
	b.WriteString("\nreplace (\n")
	for _, m := range mods[1:] {
		b.WriteString("\t" + m.Path + " => " + m.Dir + "\n")
	}
	b.WriteString(")\n")
	if err := os.WriteFile(filepath.Join(dir, "go.mod"), []byte(b.String()), 0o644); err != nil {
		return "", err
	}
	sum, _ := os.ReadFile(filepath.Join(repoRoot, "go.sum"))
	for _, m := range mods[1:] {
		s, _ := os.ReadFile(filepath.Join(m.Dir, "go.sum"))
		sum = append(sum, s...)
	}
	os.WriteFile(filepath.Join(dir, "go.sum"), sum, 0o644)
	return dir, nil
}

// BuildPkg builds SSA function bodies for one package (idempotent).
func (p *Program) BuildPkg(path string) *ssa.Package {
	pk := p.Pkgs[path]
	if pk == nil || pk.Types == nil {
		return nil
	}
	sp := p.SSA.Package(pk.Types)
	if sp == nil {
		return nil
	}
	if !p.built[path] {
		sp.Build()
		p.built[path] = true
	}
	return sp
}

// InRepo reports whether import path belongs to /repo.
func (p *Program) InRepo(path string) bool {
	return path == "github.com/btcsuite/btcwallet" || strings.HasPrefix(path, "github.com/btcsuite/btcwallet/")
}

// FuncKey returns the contract key of an ssa function.
func FuncKey(f *ssa.Function) string {
	pkg := f.Package()
	if pkg == nil {
		if f.Origin() != nil {
			return FuncKey(f.Origin())
		}
		// methods of instantiated/synthetic wrappers
		if recv := f.Signature.Recv(); recv != nil {
			if n := namedOf(recv.Type()); n != nil && n.Obj().Pkg() != nil {
				return n.Obj().Pkg().Path() + "::" + f.RelString(n.Obj().Pkg())
			}
		}
		return "?::" + f.String()
	}
	return pkg.Pkg.Path() + "::" + f.RelString(pkg.Pkg)
}

func namedOf(t types.Type) *types.Named {
	for {
		switch x := t.(type) {
		case *types.Pointer:
			t = x.Elem()
		case *types.Named:
			return x
		case *types.Alias:
			t = types.Unalias(x)
		default:
			return nil
		}
	}
}

// LookupFunc finds the ssa function for a contract.
func (p *Program) LookupFunc(c *spec.FuncContract) *ssa.Function {
	sp := p.BuildPkg(c.Pkg)
	if sp == nil {
		return nil
	}
	name := c.Name
	// closures: Outer$1, (*T).M$1$2
	var anon []string
	if i := strings.Index(name, "$"); i >= 0 {
		anon = strings.Split(name[i+1:], "$")
		name = name[:i]
	}
	var f *ssa.Function
	if strings.HasPrefix(name, "(") {
		// (*T).M or (T).M
		end := strings.Index(name, ").")
		if end < 0 {
			return nil
		}
		recv := name[1:end]
		meth := name[end+2:]
		ptr := strings.HasPrefix(recv, "*")
		recv = strings.TrimPrefix(recv, "*")
		obj := sp.Pkg.Scope().Lookup(recv)
		if obj == nil {
			return nil
		}
		var t types.Type = obj.Type()
		if ptr {
			t = types.NewPointer(t)
		}
		sel := p.SSA.MethodSets.MethodSet(t).Lookup(sp.Pkg, meth)
		if sel == nil {
			return nil
		}
		f = p.SSA.MethodValue(sel)
	} else {
		f = sp.Func(name)
	}
	for _, a := range anon {
		if f == nil {
			return nil
		}
		n := 0
		fmt.Sscanf(a, "%d", &n)
		if n < 1 || n > len(f.AnonFuncs) {
			return nil
		}
		f = f.AnonFuncs[n-1]
	}
	return f
}

// ContractFor returns the contract of a function, if any.
func (p *Program) ContractFor(f *ssa.Function) *spec.FuncContract {
	return p.Specs.Contracts[FuncKey(f)]
}

// IfaceContract returns the contract of an interface method.
func (p *Program) IfaceContract(m *types.Func) *spec.FuncContract {
	sig := m.Type().(*types.Signature)
	recv := sig.Recv()
	if recv == nil {
		return nil
	}
	n := namedOf(recv.Type())
	if n == nil || n.Obj().Pkg() == nil {
		if n != nil && n.Obj().Name() == "error" {
			return p.Specs.Contracts["builtin::iface error."+m.Name()]
		}
		return nil
	}
	return p.Specs.Contracts[n.Obj().Pkg().Path()+"::iface "+n.Obj().Name()+"."+m.Name()]
}

// ExpandAutoRules applies every `auto <prop> modifies <ghost>` template to all
// functions (methods, closures) of its package that may modify the ghost and
// whose last result is an error: functions with an explicit contract get the
// template's clauses added, the others get a contract consisting of them.
func (p *Program) ExpandAutoRules(u *Universe) {
	var rules []*spec.FuncContract
	for k, c := range p.Specs.Contracts {
		if strings.HasPrefix(c.Name, "auto:") {
			rules = append(rules, c)
			delete(p.Specs.Contracts, k)
		}
	}
	sort.Slice(rules, func(i, j int) bool { return rules[i].Name < rules[j].Name })
	for _, rule := range rules {
		parts := strings.Split(rule.Name, ":")
		ghost := parts[2]
		srt, ok := p.Specs.Ghosts[ghost]
		if !ok {
			p.Warnings = append(p.Warnings, rule.Src+": auto rule names unknown ghost "+ghost)
			continue
		}
		gkey := u.GhostComp(ghost, srt)
		sp := p.BuildPkg(rule.Pkg)
		if sp == nil {
			continue
		}
		var fns []*ssa.Function
		var visit func(f *ssa.Function)
		visit = func(f *ssa.Function) {
			if f == nil || len(f.Blocks) == 0 || f.Synthetic != "" {
				return
			}
			fns = append(fns, f)
			for _, a := range f.AnonFuncs {
				visit(a)
			}
		}
		var names []string
		for n := range sp.Members {
			names = append(names, n)
		}
		sort.Strings(names)
		for _, n := range names {
			switch x := sp.Members[n].(type) {
			case *ssa.Function:
				visit(x)
			case *ssa.Type:
				for _, t := range []types.Type{x.Type(), types.NewPointer(x.Type())} {
					ms := p.SSA.MethodSets.MethodSet(t)
					for i := 0; i < ms.Len(); i++ {
						if f := p.SSA.MethodValue(ms.At(i)); f != nil && f.Package() == sp {
							dup := false
							for _, g := range fns {
								if g == f {
									dup = true
								}
							}
							if !dup {
								visit(f)
							}
						}
					}
				}
			}
		}
		for _, f := range fns {
			res := f.Signature.Results()
			if res.Len() == 0 || !isErrorType(res.At(res.Len()-1).Type()) {
				continue
			}
			mods, all := p.ModSet(u, f)
			if !all && !mods[gkey] {
				continue
			}
			key := FuncKey(f)
			c := p.Specs.Contracts[key]
			if c == nil {
				c = &spec.FuncContract{Pkg: rule.Pkg, Name: f.RelString(sp.Pkg), Src: rule.Src,
					Opts: map[string]string{}, AuxLabels: map[string]bool{}}
				for _, prm := range f.Params {
					c.Params = append(c.Params, prm.Name())
				}
				p.Specs.Contracts[key] = c
			}
			if c.Trusted || c.NoBody {
				continue
			}
			// A function that has an explicit contract of its own keeps that
			// contract's properties; the template's clauses are then owned by the
			// template's property alone (clause-level ownership), so the explicit
			// clauses are not verified a second time in the template's property
			// run. A function without an explicit contract belongs to the
			// template's property as a whole.
			own := func(e *spec.Clause) *spec.Clause {
				if len(c.Props) == 0 || sameProps(c.Props, rule.Props) {
					return e
				}
				cp := *e
				cp.Props = rule.Props
				return &cp
			}
			if len(c.Props) == 0 {
				c.Props = append(c.Props, rule.Props...)
			}
			for _, e := range rule.Requires {
				if autoClauseApplies(e, f, c) {
					c.Requires = append(c.Requires, e)
				}
			}
			for _, e := range rule.Ensures {
				if autoClauseApplies(e, f, c) {
					c.Ensures = append(c.Ensures, own(e))
				}
			}
			for _, e := range rule.Guarantees {
				if autoClauseApplies(e, f, c) {
					c.Guarantees = append(c.Guarantees, own(e))
				}
			}
			for _, e := range rule.Invs {
				if autoClauseApplies(e, f, c) {
					c.Invs = append(c.Invs, own(e))
				}
			}
		}
	}
}

var globalInits map[string]string

// globalInitString: the string literal a package-level []byte variable is
// initialised with in its package initialiser (`var x = []byte("lit")`).
func (p *Program) globalInitString(pkg, name string) (string, bool) {
	if globalInits == nil {
		globalInits = map[string]string{}
		for path := range p.built {
			pk := p.Pkgs[path]
			if pk == nil || pk.Types == nil {
				continue
			}
			sp := p.SSA.Package(pk.Types)
			if sp == nil {
				continue
			}
			init := sp.Func("init")
			if init == nil {
				continue
			}
			for _, b := range init.Blocks {
				for _, in := range b.Instrs {
					st, ok := in.(*ssa.Store)
					if !ok {
						continue
					}
					gl, ok := st.Addr.(*ssa.Global)
					if !ok {
						continue
					}
					cv, ok := st.Val.(*ssa.Convert)
					if !ok {
						continue
					}
					c, ok := cv.X.(*ssa.Const)
					if !ok || c.Value == nil || c.Value.Kind() != constant.String {
						continue
					}
					globalInits[gl.Pkg.Pkg.Path()+"."+gl.Name()] = constant.StringVal(c.Value)
				}
			}
		}
	}
	v, ok := globalInits[pkg+"."+name]
	return v, ok
}

// autoClauseApplies: a template clause naming a parameter (e.g. ns) applies
// only to functions that have a parameter or captured variable of that name.
func sameProps(a, b []string) bool {
	if len(a) != len(b) {
		return false
	}
	for i := range a {
		if a[i] != b[i] {
			return false
		}
	}
	return true
}

func autoClauseApplies(cl *spec.Clause, f *ssa.Function, c *spec.FuncContract) bool {
	// `opt noauto label1 label2`: the function opts out of these template clauses
	for _, l := range strings.Fields(c.Opts["noauto"]) {
		if l == cl.Label {
			return false
		}
	}
	names := map[string]bool{}
	for _, p := range f.Params {
		names[p.Name()] = true
	}
	for _, fv := range f.FreeVars {
		names[fv.Name()] = true
	}
	// a clause that speaks about the namespace parameter `ns` applies only to
	// functions that have one
	ids := map[string]bool{}
	spec.Idents(cl.Expr, ids)
	for _, need := range []string{"ns", "rec"} {
		if ids[need] && !names[need] {
			return false
		}
	}
	return true
}
