package waddrmgr

// Replay for fault-propagation obligations of the waddrmgr database helpers:
// a real manager database is opened, the namespace bucket is wrapped in a
// fault-injecting decorator that fails the k-th write (Put / Delete /
// CreateBucket* / DeleteNestedBucket / sequence), and the helper named by the
// failed obligation is run for k = 1, 2, ...: it must report an error whenever
// the injected fault fired.

import (
	"errors"
	"fmt"
	"strings"
	"testing"

	"github.com/btcsuite/btcwallet/walletdb"
)

var errGovcInjected = errors.New("govc: injected write fault")

type govcFault struct {
	failAt int
	writes int
	fired  bool
}

func (f *govcFault) hit() bool {
	f.writes++
	if f.writes == f.failAt {
		f.fired = true
		return true
	}
	return false
}

type govcBucket struct {
	walletdb.ReadWriteBucket
	f *govcFault
}

func (b *govcBucket) wrap(n walletdb.ReadWriteBucket) walletdb.ReadWriteBucket {
	if n == nil {
		return nil
	}
	return &govcBucket{n, b.f}
}
func (b *govcBucket) NestedReadWriteBucket(k []byte) walletdb.ReadWriteBucket {
	return b.wrap(b.ReadWriteBucket.NestedReadWriteBucket(k))
}
func (b *govcBucket) NestedReadBucket(k []byte) walletdb.ReadBucket {
	n := b.ReadWriteBucket.NestedReadWriteBucket(k)
	if n == nil {
		return nil
	}
	return &govcBucket{n, b.f}
}
func (b *govcBucket) CreateBucket(k []byte) (walletdb.ReadWriteBucket, error) {
	if b.f.hit() {
		return nil, errGovcInjected
	}
	n, err := b.ReadWriteBucket.CreateBucket(k)
	return b.wrap(n), err
}
func (b *govcBucket) CreateBucketIfNotExists(k []byte) (walletdb.ReadWriteBucket, error) {
	if b.f.hit() {
		return nil, errGovcInjected
	}
	n, err := b.ReadWriteBucket.CreateBucketIfNotExists(k)
	return b.wrap(n), err
}
func (b *govcBucket) DeleteNestedBucket(k []byte) error {
	if b.f.hit() {
		return errGovcInjected
	}
	return b.ReadWriteBucket.DeleteNestedBucket(k)
}
func (b *govcBucket) Put(k, v []byte) error {
	if b.f.hit() {
		return errGovcInjected
	}
	return b.ReadWriteBucket.Put(k, v)
}
func (b *govcBucket) Delete(k []byte) error {
	if b.f.hit() {
		return errGovcInjected
	}
	return b.ReadWriteBucket.Delete(k)
}

func TestGovcReplay(t *testing.T) {
	m := govcModel(t)
	obl := m["$obligation"]
	tearDown, db, _ := setupManager(t)
	defer tearDown()
	scope := KeyScopeBIP0044
	hash := make([]byte, 32)
	hash[0] = 7
	// the helper under replay, chosen by the failed obligation
	var run func(ns walletdb.ReadWriteBucket) error
	switch {
	case strings.Contains(obl, "putAddrAccountIndex"):
		run = func(ns walletdb.ReadWriteBucket) error { return putAddrAccountIndex(ns, &scope, 0, hash) }
	case strings.Contains(obl, "putChainedAddress"):
		run = func(ns walletdb.ReadWriteBucket) error {
			return putChainedAddress(ns, &scope, hash, 0, ssFull, 0, 7, adtChain)
		}
	case strings.Contains(obl, "putAccountInfo"), strings.Contains(obl, "putAccountRow"), strings.Contains(obl, "putDefaultAccountInfo"):
		run = func(ns walletdb.ReadWriteBucket) error {
			return putDefaultAccountInfo(ns, &scope, 3, []byte{1}, []byte{2}, 0, 0, "govc")
		}
	default:
		fmt.Println("no replay scenario for", obl)
		return
	}
	bad := 0
	for k := 1; k <= 12; k++ {
		f := &govcFault{failAt: k}
		var got error
		err := walletdb.Update(db, func(tx walletdb.ReadWriteTx) error {
			ns := tx.ReadWriteBucket(waddrmgrNamespaceKey)
			got = run(&govcBucket{ns, f})
			return errors.New("roll back") // never keep the effects
		})
		_ = err
		if f.fired && got == nil {
			fmt.Printf("write #%d failed but the operation reported success\n", k)
			bad++
		}
		if !f.fired {
			break
		}
	}
	if bad > 0 {
		fmt.Printf("REPLAY-VIOLATION %d write positions whose failure is swallowed\n", bad)
		return
	}
	fmt.Println("REPLAY-OK")
}
