package vc

import (
	"fmt"
	"go/ast"
	"go/constant"
	"go/types"
	"math/big"
	"strings"

	"govc/internal/spec"

	"golang.org/x/tools/go/ssa"
)

// Env is the evaluation environment of a contract expression.
type Env struct {
	g           *Gen
	vars        map[string]TV
	cur, old    *State
	loop        *loopInfo
	phiOverride map[string]TV
	callee      bool   // evaluating a callee's contract at a call site
	pkg         string // package for Go constants / globals
	src         string
	inOld       bool // inside old(...): parameters denote their entry values
	inTrigger   bool // evaluating a quantifier pattern: no Boolean connectives
}

func (g *Gen) newEnv(cur, old *State) *Env {
	e := &Env{g: g, vars: map[string]TV{}, cur: cur, old: old}
	for k, v := range g.params {
		e.vars[k] = v
	}
	if g.fn.Package() != nil {
		e.pkg = g.fn.Package().Pkg.Path()
	} else if g.con != nil {
		e.pkg = g.con.Pkg
	}
	return e
}

func (e *Env) child() *Env {
	n := *e
	n.vars = map[string]TV{}
	for k, v := range e.vars {
		n.vars[k] = v
	}
	return &n
}

func (e *Env) fail(format string, args ...interface{}) {
	e.g.fail("contract %s: %s", e.src, fmt.Sprintf(format, args...))
}

func (g *Gen) evalBool(env *Env, x spec.Expr, src string) Term {
	env.src = src
	tv := env.eval(x)
	if tv.Sort != "Bool" {
		env.fail("expression %s is not boolean (%s)", x, tv.Sort)
	}
	return tv.T
}

// atRef marks a TV whose T is the address of an aggregate of type Go.
const atRefSort = "@ref"

// materialize turns a located aggregate into its value.
func (e *Env) materialize(tv TV) TV {
	if tv.Sort != atRefSort {
		return tv
	}
	g := e.g
	switch x := types.Unalias(tv.Go).Underlying().(type) {
	case *types.Struct:
		return TV{g.loadStruct(e.cur, tv.T, tv.Go), g.u.SortOf(tv.Go), tv.Go}
	case *types.Array:
		return TV{fmt.Sprintf("(select %s %s)", g.read(e.cur, g.u.ElemComp(x.Elem())), tv.T), g.u.SortOf(tv.Go), tv.Go}
	}
	e.fail("cannot materialize %s", tv.Go)
	return tv
}

func (e *Env) eval(x spec.Expr) TV {
	g := e.g
	switch x := x.(type) {
	case *spec.IntLit:
		bi, ok := new(big.Int).SetString(x.Val, 0)
		if !ok {
			e.fail("bad integer %s", x.Val)
		}
		return TV{intLit(bi), "Int", nil}
	case *spec.BoolLit:
		if x.Val {
			return TV{"true", "Bool", nil}
		}
		return TV{"false", "Bool", nil}
	case *spec.StrLit:
		return TV{g.u.StrLit(x.Val), "Str", types.Typ[types.String]}
	case *spec.Ident:
		return e.ident(x.Name)
	case *spec.HeapRef:
		return e.heapRef(x)
	case *spec.Unary:
		v := e.materialize(e.eval(x.X))
		switch x.Op {
		case "!":
			if v.Sort != "Bool" {
				e.fail("! on %s", v.Sort)
			}
			return TV{"(not " + v.T + ")", "Bool", nil}
		case "-":
			return TV{"(- " + v.T + ")", "Int", nil}
		}
	case *spec.Binary:
		return e.binary(x)
	case *spec.Cond:
		c := e.eval(x.C)
		a := e.materialize(e.eval(x.A))
		b := e.materialize(e.eval(x.B))
		a, b = e.unify(a, b)
		return TV{fmt.Sprintf("(ite %s %s %s)", c.T, a.T, b.T), a.Sort, a.Go}
	case *spec.Quant:
		n := e.child()
		var binders []string
		for _, v := range x.Vars {
			srt, gt := e.sortName(v.Sort)
			name := fmt.Sprintf("q!%s", v.Name)
			n.vars[v.Name] = TV{name, srt, gt}
			binders = append(binders, fmt.Sprintf("(%s %s)", name, srt))
		}
		// A trigger s[i] on a slice s is made absolute: the bound variable
		// ranges over absolute row positions j = off + i, so that the pattern
		// (select row j) matches every read of the row, whatever slice window
		// the read went through.
		for _, tr := range x.Triggers {
			for _, t := range tr {
				ix, ok := t.(*spec.Index)
				if !ok {
					continue
				}
				id, ok := ix.I.(*spec.Ident)
				if !ok {
					continue
				}
				bv, bound := n.vars[id.Name]
				if !bound || bv.Sort != "Int" || !strings.HasPrefix(bv.T, "q!") {
					continue
				}
				base := n.eval(ix.X)
				if base.Sort == "Slice" && !strings.Contains(base.T, bv.T) {
					n.vars[id.Name] = TV{fmt.Sprintf("(- %s (s.off %s))", bv.T, base.T), "Int", bv.Go}
				}
			}
		}
		body := n.eval(x.Body)
		if body.Sort != "Bool" {
			e.fail("quantifier body not boolean")
		}
		q := "exists"
		if x.Forall {
			q = "forall"
		}
		bt := body.T
		if len(x.Triggers) > 0 {
			bt = "(! " + bt
			for _, tr := range x.Triggers {
				var ts []string
				for _, t := range tr {
					tn := *n
					tn.inTrigger = true
					ts = append(ts, tn.materialize(tn.eval(t)).T)
				}
				bt += " :pattern (" + strings.Join(ts, " ") + ")"
			}
			bt += ")"
		}
		return TV{fmt.Sprintf("(%s (%s) %s)", q, strings.Join(binders, " "), bt), "Bool", nil}
	case *spec.Sel:
		return e.sel(x)
	case *spec.Index:
		return e.index(x)
	case *spec.Call:
		return e.call(x)
	}
	e.fail("cannot evaluate %s", x)
	return TV{}
}

// sortName resolves a sort written in a contract: SMT sorts, declared sorts,
// or Go basic type names.
func (e *Env) sortName(s string) (string, types.Type) {
	switch s {
	case "Int", "Bool", "Str", "Slice", "Iface", "Float", "Bytes":
		return s, nil
	case "Ref":
		return "Int", nil
	case "int", "int8", "int16", "int32", "int64", "uint", "uint8", "uint16", "uint32", "uint64", "byte", "uintptr":
		for _, b := range types.Typ {
			if b.Name() == s {
				return "Int", b
			}
		}
		if s == "byte" {
			return "Int", types.Typ[types.Uint8]
		}
	case "bool":
		return "Bool", types.Typ[types.Bool]
	case "string":
		return "Str", types.Typ[types.String]
	}
	if strings.HasPrefix(s, "(Array ") {
		// resolve Go type names inside array sorts: (Array Int Version)
		k, _ := e.sortName(arrayKeySort(s))
		v, vt := e.sortName(arrayElemSort(s))
		if vt != nil {
			// remember the Go element type of an SMT array value (as a synthetic map type)
			return "(Array " + k + " " + v + ")", types.NewMap(types.Typ[types.Int], vt)
		}
		return "(Array " + k + " " + v + ")", nil
	}
	if e.g.prog.Specs.Sorts[s] {
		return s, nil
	}
	if t := e.lookupType(s); t != nil {
		return e.g.u.SortOf(t), t
	}
	e.fail("unknown sort %s", s)
	return "", nil
}

// lookupType resolves pkgalias.Name or Name (in the contract's package), with
// an optional leading * for pointers.
func (e *Env) lookupType(s string) types.Type {
	if strings.HasPrefix(s, "*") {
		if t := e.lookupType(s[1:]); t != nil {
			return types.NewPointer(t)
		}
		return nil
	}
	if strings.HasPrefix(s, "[]") {
		if t := e.lookupType(s[2:]); t != nil {
			return types.NewSlice(t)
		}
		return nil
	}
	for _, b := range types.Typ {
		if b.Name() == s {
			return b
		}
	}
	if s == "byte" {
		return types.Typ[types.Uint8]
	}
	pkgPath, name := e.pkg, s
	if i := strings.LastIndex(s, "."); i >= 0 {
		alias := s[:i]
		name = s[i+1:]
		pkgPath = ""
		// resolve alias through the imports of the contract's package
		if p := e.g.prog.Pkgs[e.pkg]; p != nil {
			for path, ip := range p.Imports {
				if ip.Name == alias || path == alias || strings.HasSuffix(path, "/"+alias) {
					pkgPath = path
					if ip.Name == alias {
						break
					}
				}
			}
		}
		if pkgPath == "" {
			for path := range e.g.prog.Pkgs {
				if path == alias || strings.HasSuffix(path, "/"+alias) {
					pkgPath = path
				}
			}
		}
	}
	p := e.g.prog.Pkgs[pkgPath]
	if p == nil || p.Types == nil {
		return nil
	}
	obj := p.Types.Scope().Lookup(name)
	if tn, ok := obj.(*types.TypeName); ok {
		return tn.Type()
	}
	return nil
}

func (e *Env) ident(name string) TV {
	g := e.g
	if tv, ok := e.vars[name]; ok {
		// a parameter that the loop reassigns (it is a phi node of the loop
		// whose invariant is being evaluated) denotes its current value there
		if ptv, isParam := g.params[name]; isParam && !e.callee && !e.inOld && e.loop != nil && ptv.T == tv.T {
			if e.phiOverride != nil {
				if o, ok := e.phiOverride[name]; ok {
					return o
				}
			}
			for _, in := range e.loop.header.Instrs {
				phi, ok := in.(*ssa.Phi)
				if !ok {
					break
				}
				if phi.Comment == name {
					return TV{g.vals[phi], g.u.SortOf(phi.Type()), phi.Type()}
				}
			}
		}
		return tv
	}
	if name == "nil" {
		return TV{"0", "Nil", nil}
	}
	if e.phiOverride != nil {
		if tv, ok := e.phiOverride[name]; ok {
			return tv
		}
	}
	if !e.callee && name == "rangeseen" {
		// keys already visited by the map range of the invariant's loop (or,
		// for a loop without one, of the first map range of the function)
		find := func(b *ssa.BasicBlock) *TV {
			for _, in := range b.Instrs {
				if nx, ok := in.(*ssa.Next); ok {
					if rg, ok := nx.Iter.(*ssa.Range); ok {
						if mt, ok := types.Unalias(rg.X.Type()).Underlying().(*types.Map); ok {
							k := g.seenComp(rg, g.u.SortOf(mt.Key()))
							return &TV{g.read(e.cur, k), g.u.compSort[k], nil}
						}
					}
				}
			}
			return nil
		}
		if e.loop != nil {
			if tv := find(e.loop.header); tv != nil {
				return *tv
			}
		}
		for _, b := range g.fn.Blocks {
			if tv := find(b); tv != nil {
				return *tv
			}
		}
		e.fail("rangeseen: no map range in this function")
	}
	if !e.callee {
		for _, fv := range g.fn.FreeVars {
			if fv.Name() == name {
				et := deref(fv.Type())
				p := g.placeOfRef(g.val(fv), et)
				if p.Struct || isAggregate(et) {
					return TV{g.val(fv), atRefSort, et}
				}
				return TV{g.load(e.cur, p), g.u.SortOf(et), et}
			}
		}
		// address-taken local (captured by a closure): read its cell
		for _, b := range g.fn.Blocks {
			for _, in := range b.Instrs {
				if al, ok := in.(*ssa.Alloc); ok && al.Comment == name {
					if _, defined := g.vals[al]; defined {
						et := deref(al.Type())
						if isAggregate(et) {
							return TV{g.val(al), atRefSort, et}
						}
						return TV{g.load(e.cur, g.placeOfRef(g.val(al), et)), g.u.SortOf(et), et}
					}
				}
			}
		}
		// phi nodes / named locals of the function under verification
		if tv, ok := g.localByName(name, e.loop); ok {
			return tv
		}
	}
	if srt, ok := g.prog.Specs.Ghosts[name]; ok {
		return TV{g.read(e.cur, g.u.GhostComp(name, srt)), srt, nil}
	}
	if srt, ok := g.prog.Specs.Consts[name]; ok {
		g.u.Extra(fmt.Sprintf("(declare-const c.%s %s)", name, srt))
		return TV{"c." + name, srt, nil}
	}
	// Go package-level constant or variable
	if p := g.prog.Pkgs[e.pkg]; p != nil && p.Types != nil {
		if obj := p.Types.Scope().Lookup(name); obj != nil {
			return e.goObject(obj)
		}
	}
	e.fail("unknown identifier %s", name)
	return TV{}
}

// memLocal: current content of the unique address-taken local called name
// (no phi of that name, exactly one Alloc).
func (e *Env) memLocal(name string) (TV, bool) {
	g := e.g
	var cell *ssa.Alloc
	for _, b := range g.fn.Blocks {
		for _, in := range b.Instrs {
			switch x := in.(type) {
			case *ssa.Phi:
				if x.Comment == name {
					return TV{}, false
				}
			case *ssa.Alloc:
				if x.Comment == name {
					if cell != nil {
						return TV{}, false
					}
					cell = x
				}
			}
		}
	}
	if cell == nil {
		return TV{}, false
	}
	if _, defined := g.vals[cell]; !defined {
		return TV{}, false
	}
	et := deref(cell.Type())
	if isAggregate(et) {
		return TV{g.val(cell), atRefSort, et}, true
	}
	return TV{g.load(e.cur, g.placeOfRef(g.val(cell), et)), g.u.SortOf(et), et}, true
}

func (e *Env) goObject(obj types.Object) TV {
	g := e.g
	switch o := obj.(type) {
	case *types.Const:
		switch o.Val().Kind() {
		case constant.Int:
			bi, _ := new(big.Int).SetString(o.Val().ExactString(), 10)
			return TV{intLit(bi), "Int", o.Type()}
		case constant.Bool:
			return TV{fmt.Sprint(constant.BoolVal(o.Val())), "Bool", o.Type()}
		case constant.String:
			return TV{g.u.StrLit(constant.StringVal(o.Val())), "Str", o.Type()}
		}
	case *types.Var:
		k := g.u.GlobalComp(o.Pkg().Path(), o.Name(), o.Type())
		return TV{g.read(e.cur, k), g.u.SortOf(o.Type()), o.Type()}
	}
	e.fail("unsupported Go object %s", obj)
	return TV{}
}

// localByName finds a phi (by source variable name) or named SSA value.
func (g *Gen) localByName(name string, li *loopInfo) (TV, bool) {
	var found *ssa.Phi
	search := func(b *ssa.BasicBlock) {
		for _, in := range b.Instrs {
			phi, ok := in.(*ssa.Phi)
			if !ok {
				break
			}
			if phi.Comment == name || phi.Name() == name {
				if _, ok := g.vals[phi]; ok {
					found = phi
				}
			}
		}
	}
	if li != nil {
		search(li.header)
	}
	if found == nil {
		for _, b := range g.fn.Blocks {
			search(b)
			if found != nil {
				break
			}
		}
	}
	if found != nil && (li == nil || found.Block() == li.header) {
		return TV{g.vals[found], g.u.SortOf(found.Type()), found.Type()}, true
	}
	// a captured variable (free variable of a closure, or a local that lives in
	// a heap cell because a closure captures it) has no single SSA value: its
	// value depends on the state, so it is read from its cell by the caller
	// (ident), never taken from a DebugRef snapshot
	for _, fv := range g.fn.FreeVars {
		if fv.Name() == name {
			return TV{}, false
		}
	}
	for _, b := range g.fn.Blocks {
		for _, in := range b.Instrs {
			if al, ok := in.(*ssa.Alloc); ok && al.Heap && al.Comment == name {
				if _, defined := g.vals[al]; defined {
					return TV{}, false
				}
			}
		}
	}
	// source-level variable via DebugRef: the last non-address reference whose
	// block dominates the point of interest
	var at *ssa.BasicBlock
	if li != nil {
		at = li.header
	} else {
		at = g.curBlock
	}
	var best ssa.Value
	for _, b := range g.fn.Blocks {
		if at != nil && !(b == at || b.Dominates(at)) {
			continue
		}
		for _, in := range b.Instrs {
			dr, ok := in.(*ssa.DebugRef)
			if !ok || dr.IsAddr {
				continue
			}
			if id, ok := dr.Expr.(*ast.Ident); ok && id.Name == name {
				if _, defined := g.vals[dr.X]; defined || isConst(dr.X) {
					best = dr.X
				}
			}
		}
	}
	if best == nil && found != nil {
		return TV{g.vals[found], g.u.SortOf(found.Type()), found.Type()}, true
	}
	if best != nil {
		return TV{g.val(best), g.u.SortOf(best.Type()), best.Type()}, true
	}
	return TV{}, false
}

func (e *Env) heapRef(x *spec.HeapRef) TV {
	g := e.g
	switch x.Kind {
	case "G":
		srt, ok := g.prog.Specs.Ghosts[x.Name]
		if !ok {
			e.fail("unknown ghost %s", x.Name)
		}
		return TV{g.read(e.cur, g.u.GhostComp(x.Name, srt)), srt, nil}
	case "M", "C":
		srtName := x.Name
		_, gt := e.sortName(srtName)
		if gt == nil {
			e.fail("@%s needs a Go type, got %s", x.Kind, x.Name)
		}
		var k string
		if x.Kind == "M" {
			k = g.u.ElemComp(gt)
		} else {
			k = g.u.CellComp(gt)
		}
		return TV{g.read(e.cur, k), g.u.compSort[k], nil}
	case "H":
		i := strings.LastIndex(x.Name, ".")
		if i < 0 {
			e.fail("@H(Type.field)")
		}
		t := e.lookupType(x.Name[:i])
		if t == nil {
			e.fail("unknown type %s", x.Name[:i])
		}
		si := g.u.StructOf(t)
		if si == nil {
			e.fail("%s is not a struct", x.Name[:i])
		}
		for fi, f := range si.Fields {
			if f.Name == x.Name[i+1:] {
				k := g.u.FieldComp(t, fi)
				return TV{g.read(e.cur, k), g.u.compSort[k], nil}
			}
		}
		e.fail("no field %s", x.Name)
	}
	e.fail("bad heap reference %s", x)
	return TV{}
}

func isIntSort(tv TV) bool { return tv.Sort == "Int" }

// unify reconciles nil with pointer / slice / interface operands.
func (e *Env) unify(a, b TV) (TV, TV) {
	if a.Sort == "Nil" && b.Sort == "Nil" {
		return TV{"0", "Int", nil}, TV{"0", "Int", nil}
	}
	fix := func(n TV, o TV) TV {
		switch o.Sort {
		case "Slice":
			return TV{"nil.slice", "Slice", o.Go}
		case "Iface":
			return TV{"nil.iface", "Iface", o.Go}
		}
		return TV{"0", "Int", o.Go}
	}
	if a.Sort == "Nil" {
		a = fix(a, b)
	}
	if b.Sort == "Nil" {
		b = fix(b, a)
	}
	return a, b
}

func (e *Env) binary(x *spec.Binary) TV {
	switch x.Op {
	case "&&", "||", "==>", "<==>":
		l, r := e.eval(x.L), e.eval(x.R)
		if l.Sort != "Bool" || r.Sort != "Bool" {
			e.fail("%s needs boolean operands in %s (got %s, %s)", x.Op, x, l.Sort, r.Sort)
		}
		op := map[string]string{"&&": "and", "||": "or", "==>": "=>", "<==>": "="}[x.Op]
		return TV{fmt.Sprintf("(%s %s %s)", op, l.T, r.T), "Bool", nil}
	}
	l, r := e.materialize(e.eval(x.L)), e.materialize(e.eval(x.R))
	l, r = e.unify(l, r)
	switch x.Op {
	case "==", "!=":
		if l.Sort != r.Sort {
			e.fail("comparison of %s with %s in %s", l.Sort, r.Sort, x)
		}
		var eq string
		if l.Sort == "Slice" && (l.T == "nil.slice" || r.T == "nil.slice") {
			o := l
			if l.T == "nil.slice" {
				o = r
			}
			eq = fmt.Sprintf("(= (s.base %s) 0)", o.T)
		} else {
			eq = fmt.Sprintf("(= %s %s)", l.T, r.T)
		}
		if x.Op == "!=" {
			eq = "(not " + eq + ")"
		}
		return TV{eq, "Bool", nil}
	case "<", "<=", ">", ">=":
		if !isIntSort(l) || !isIntSort(r) {
			e.fail("%s needs integers in %s", x.Op, x)
		}
		return TV{fmt.Sprintf("(%s %s %s)", x.Op, l.T, r.T), "Bool", nil}
	case "+", "-", "*":
		if !isIntSort(l) || !isIntSort(r) {
			e.fail("%s needs integers in %s (got %s, %s)", x.Op, x, l.Sort, r.Sort)
		}
		return TV{fmt.Sprintf("(%s %s %s)", x.Op, l.T, r.T), "Int", nil}
	case "/":
		return TV{fmt.Sprintf("(div %s %s)", l.T, r.T), "Int", nil}
	case "%":
		return TV{fmt.Sprintf("(mod %s %s)", l.T, r.T), "Int", nil}
	}
	e.fail("unknown operator %s", x.Op)
	return TV{}
}

func (e *Env) sel(x *spec.Sel) TV {
	g := e.g
	// package-qualified Go object: pkg.Name
	if id, ok := x.X.(*spec.Ident); ok {
		if _, bound := e.vars[id.Name]; !bound {
			if t := e.qualified(id.Name, x.Name); t != nil {
				return *t
			}
		}
	}
	b := e.eval(x.X)
	// slice pseudo fields
	if b.Sort == "Slice" {
		switch x.Name {
		case "base", "off", "len", "cap":
			return TV{fmt.Sprintf("(s.%s %s)", x.Name, b.T), "Int", nil}
		}
	}
	if b.Sort == "Iface" {
		switch x.Name {
		case "typ", "val":
			return TV{fmt.Sprintf("(i.%s %s)", x.Name, b.T), "Int", nil}
		}
	}
	if b.Go == nil {
		e.fail("field %s of untyped value %s", x.Name, x.X)
	}
	var st types.Type
	ref := ""
	if b.Sort == atRefSort {
		st, ref = b.Go, b.T
	} else if pt := deref(b.Go); pt != nil {
		st, ref = pt, b.T
	} else {
		st = b.Go
	}
	si := g.u.StructOf(st)
	if si == nil {
		e.fail("%s is not a struct (selecting %s)", st, x.Name)
	}
	fi, path := findField(g.u, st, x.Name)
	if fi < 0 {
		e.fail("no field %s in %s", x.Name, st)
	}
	// walk embedded path
	cur := TV{b.T, b.Sort, b.Go}
	curT := st
	for _, idx := range append(path, fi) {
		csi := g.u.StructOf(curT)
		f := csi.Fields[idx]
		if ref != "" {
			if isAggregate(f.Type) {
				ref = fldRef(ref, idx)
				cur = TV{ref, atRefSort, f.Type}
			} else {
				cur = TV{fmt.Sprintf("(select %s %s)", g.read(e.cur, g.u.FieldComp(curT, idx)), ref), f.Sort, f.Type}
				ref = ""
				if pt := deref(f.Type); pt != nil && false {
					_ = pt
				}
			}
		} else {
			cur = TV{fmt.Sprintf("(%s %s)", f.Acc, cur.T), f.Sort, f.Type}
		}
		curT = f.Type
		if pt := deref(curT); pt != nil && idx != fi {
			// embedded pointer: continue through it
			ref = cur.T
			curT = pt
		}
	}
	return cur
}

// findField finds a (possibly promoted) field; returns its index in the
// innermost struct and the path of embedded field indices leading there.
func findField(u *Universe, t types.Type, name string) (int, []int) {
	si := u.StructOf(t)
	if si == nil {
		return -1, nil
	}
	for i, f := range si.Fields {
		if f.Name == name {
			return i, nil
		}
	}
	for i := 0; i < si.Type.NumFields(); i++ {
		f := si.Type.Field(i)
		if !f.Embedded() {
			continue
		}
		ft := f.Type()
		if pt := deref(ft); pt != nil {
			ft = pt
		}
		if u.StructOf(ft) == nil {
			continue
		}
		if fi, p := findField(u, ft, name); fi >= 0 {
			return fi, append([]int{i}, p...)
		}
	}
	return -1, nil
}

func (e *Env) qualified(alias, name string) *TV {
	p := e.g.prog.Pkgs[e.pkg]
	if p == nil {
		return nil
	}
	for _, ip := range p.Imports {
		if ip.Name == alias && ip.Types != nil {
			if obj := ip.Types.Scope().Lookup(name); obj != nil {
				if _, isType := obj.(*types.TypeName); isType {
					return nil
				}
				tv := e.goObject(obj)
				return &tv
			}
		}
	}
	return nil
}

func (e *Env) index(x *spec.Index) TV {
	g := e.g
	b := e.eval(x.X)
	i := e.materialize(e.eval(x.I))
	if b.Sort == atRefSort {
		if at, ok := types.Unalias(b.Go).Underlying().(*types.Array); ok {
			row := fmt.Sprintf("(select %s %s)", g.read(e.cur, g.u.ElemComp(at.Elem())), b.T)
			return TV{fmt.Sprintf("(select %s %s)", row, i.T), g.u.SortOf(at.Elem()), at.Elem()}
		}
	}
	if b.Go != nil {
		switch t := types.Unalias(b.Go).Underlying().(type) {
		case *types.Slice:
			row := fmt.Sprintf("(select %s (s.base %s))", g.read(e.cur, g.u.ElemComp(t.Elem())), b.T)
			if suf := fmt.Sprintf(" (s.off %s))", b.T); strings.HasPrefix(i.T, "(- q!") && strings.HasSuffix(i.T, suf) {
				// absolute position (see Quant)
				return TV{fmt.Sprintf("(select %s %s)", row, strings.TrimSuffix(strings.TrimPrefix(i.T, "(- "), suf)), g.u.SortOf(t.Elem()), t.Elem()}
			}
			return TV{fmt.Sprintf("(select %s (loc (s.off %s) %s))", row, b.T, i.T), g.u.SortOf(t.Elem()), t.Elem()}
		case *types.Array:
			return TV{fmt.Sprintf("(select %s %s)", b.T, i.T), g.u.SortOf(t.Elem()), t.Elem()}
		case *types.Pointer:
			if at, ok := types.Unalias(t.Elem()).Underlying().(*types.Array); ok {
				row := fmt.Sprintf("(select %s %s)", g.read(e.cur, g.u.ElemComp(at.Elem())), b.T)
				return TV{fmt.Sprintf("(select %s %s)", row, i.T), g.u.SortOf(at.Elem()), at.Elem()}
			}
		case *types.Map:
			_, mv := g.u.MapComps(t)
			return TV{fmt.Sprintf("(select (select %s %s) %s)", g.read(e.cur, mv), b.T, i.T), g.u.SortOf(t.Elem()), t.Elem()}
		case *types.Basic:
			if t.Info()&types.IsString != 0 {
				return TV{fmt.Sprintf("(select (str.bytes %s) %s)", b.T, i.T), "Int", types.Typ[types.Uint8]}
			}
		}
	}
	if strings.HasPrefix(b.Sort, "(Array ") {
		return TV{fmt.Sprintf("(select %s %s)", b.T, i.T), arrayElemSort(b.Sort), nil}
	}
	e.fail("cannot index %s (%s)", x.X, b.Sort)
	return TV{}
}

// arrayElemSort extracts V from "(Array K V)".
func arrayElemSort(s string) string {
	inner := strings.TrimSuffix(strings.TrimPrefix(s, "(Array "), ")")
	// K may itself be parenthesised
	depth := 0
	for i, c := range inner {
		switch c {
		case '(':
			depth++
		case ')':
			depth--
		case ' ':
			if depth == 0 {
				return inner[i+1:]
			}
		}
	}
	return inner
}

func arrayKeySort(s string) string {
	inner := strings.TrimSuffix(strings.TrimPrefix(s, "(Array "), ")")
	depth := 0
	for i, c := range inner {
		switch c {
		case '(':
			depth++
		case ')':
			depth--
		case ' ':
			if depth == 0 {
				return inner[:i]
			}
		}
	}
	return inner
}

func (e *Env) call(x *spec.Call) TV {
	g := e.g
	switch x.Fn {
	case "old":
		n := *e
		n.cur = e.old
		n.inOld = true
		return n.materialize(n.eval(x.Args[0]))
	case "rangeseen", "rangedom":
		// rangeseen(): keys already visited by the map iteration of the loop
		// whose invariant is being evaluated; rangedom(): the map's current key set
		if e.loop == nil {
			e.fail("%s() outside a loop invariant", x.Fn)
		}
		for _, in := range e.loop.header.Instrs {
			nx, ok := in.(*ssa.Next)
			if !ok {
				continue
			}
			r, ok := nx.Iter.(*ssa.Range)
			if !ok {
				continue
			}
			mt, ok := types.Unalias(r.X.Type()).Underlying().(*types.Map)
			if !ok {
				continue
			}
			ks := g.u.SortOf(mt.Key())
			if x.Fn == "rangeseen" {
				return TV{g.read(e.cur, g.seenComp(r, ks)), "(Array " + ks + " Bool)", nil}
			}
			if e.inTrigger {
				md, _ := g.u.MapComps(mt)
				return TV{fmt.Sprintf("(select %s %s)", g.read(e.cur, md), g.val(r.X)), "(Array " + ks + " Bool)", nil}
			}
			return TV{g.mapDom(e.cur, mt, g.val(r.X)), "(Array " + ks + " Bool)", nil}
		}
		e.fail("%s(): the loop does not range over a map", x.Fn)
	case "loopentry":
		// loopentry(e): e in the state on entry to the loop whose invariant is
		// being evaluated (loop variables have their initial values)
		if e.loop == nil || e.loop.pre == nil {
			e.fail("loopentry() outside a loop invariant")
		}
		n := *e
		n.cur = e.loop.pre
		n.phiOverride = e.loop.prePhi
		return n.materialize(n.eval(x.Args[0]))
	case "len", "cap":
		a := e.eval(x.Args[0])
		if a.Sort == "Slice" {
			return TV{fmt.Sprintf("(s.%s %s)", x.Fn, a.T), "Int", nil}
		}
		if a.Sort == "Str" {
			return TV{fmt.Sprintf("(slen %s)", a.T), "Int", nil}
		}
		if a.Go != nil {
			t := a.Go
			if pt := deref(t); pt != nil {
				t = pt
			}
			if at, ok := types.Unalias(t).Underlying().(*types.Array); ok {
				return TV{fmt.Sprint(at.Len()), "Int", nil}
			}
			if mt, ok := types.Unalias(t).Underlying().(*types.Map); ok {
				md, _ := g.u.MapComps(mt)
				return TV{g.u.MapCard(g.u.SortOf(mt.Key()), fmt.Sprintf("(select %s %s)", g.read(e.cur, md), a.T)), "Int", nil}
			}
		}
		e.fail("len of %s", a.Sort)
	case "onlymap":
		// onlymap(m): among the maps of m's type, only m may differ from the
		// old state (frame for functions that update one map)
		m := e.eval(x.Args[0])
		mt, ok := types.Unalias(m.Go).Underlying().(*types.Map)
		if m.Go == nil || !ok {
			e.fail("onlymap() needs a map")
		}
		md, mv := g.u.MapComps(mt)
		dc, do, vc, vo := g.read(e.cur, md), g.read(e.old, md), g.read(e.cur, mv), g.read(e.old, mv)
		return TV{fmt.Sprintf("(forall ((r!m Int)) (! (=> (not (= r!m %s)) (and (= (select %s r!m) (select %s r!m)) (= (select %s r!m) (select %s r!m)))) :pattern ((select %s r!m)) :pattern ((select %s r!m))))",
			m.T, dc, do, vc, vo, dc, vc), "Bool", nil}
	case "goeq":
		// goeq(a, b): Go's == on two interface values (exact for nil and for
		// pointer payloads, uninterpreted but reflexive for boxed values) — the
		// same term the generator uses for the code's comparison
		a, b2 := e.materialize(e.eval(x.Args[0])), e.materialize(e.eval(x.Args[1]))
		if a.Sort != "Iface" || b2.Sort != "Iface" {
			e.fail("goeq needs two interface values")
		}
		if a.T == "nil.iface" || b2.T == "nil.iface" {
			return TV{fmt.Sprintf("(= %s %s)", a.T, b2.T), "Bool", nil}
		}
		return TV{fmt.Sprintf("(iface.eq %s %s)", a.T, b2.T), "Bool", nil}
	case "dom":
		// dom(m): the key set of map m as an SMT array K -> Bool
		m := e.eval(x.Args[0])
		mt, ok := types.Unalias(m.Go).Underlying().(*types.Map)
		if m.Go == nil || !ok {
			e.fail("dom() needs a map")
		}
		if e.inTrigger {
			// patterns must not contain ite: the plain key set (equal to the
			// guarded one whenever the map is not nil)
			md, _ := g.u.MapComps(mt)
			return TV{fmt.Sprintf("(select %s %s)", g.read(e.cur, md), m.T), "(Array " + g.u.SortOf(mt.Key()) + " Bool)", nil}
		}
		return TV{g.mapDom(e.cur, mt, m.T), "(Array " + g.u.SortOf(mt.Key()) + " Bool)", nil}
	case "has":
		m := e.eval(x.Args[0])
		k := e.materialize(e.eval(x.Args[1]))
		if mt, ok := types.Unalias(m.Go).Underlying().(*types.Map); m.Go != nil && ok {
			// a nil map has no keys (as in the model of a map lookup)
			md, _ := g.u.MapComps(mt)
			if e.inTrigger {
				return TV{fmt.Sprintf("(select (select %s %s) %s)", g.read(e.cur, md), m.T, k.T), "Bool", nil}
			}
			return TV{fmt.Sprintf("(and (not (= %s 0)) (select (select %s %s) %s))", m.T, g.read(e.cur, md), m.T, k.T), "Bool", nil}
		}
		if strings.HasPrefix(m.Sort, "(Array ") {
			return TV{fmt.Sprintf("(select %s %s)", m.T, k.T), "Bool", nil}
		}
		e.fail("has() on %s", m.Sort)
	case "card":
		// card(S): cardinality of a key set (Array K Bool), the function behind len(map)
		a := e.materialize(e.eval(x.Args[0]))
		if strings.HasPrefix(a.Sort, "(Array ") && arrayElemSort(a.Sort) == "Bool" {
			return TV{g.u.MapCard(arrayKeySort(a.Sort), a.T), "Int", nil}
		}
		e.fail("card() needs a key set")
	case "local":
		// local(x): current content of the memory-resident local variable x
		// (address-taken, not lifted to registers). A plain `x` may denote the
		// value it was initialised with.
		if id, ok := x.Args[0].(*spec.Ident); ok && !e.callee {
			if tv, ok := e.memLocal(id.Name); ok {
				return tv
			}
		}
		e.fail("local(): no unique memory-resident local of that name")
	case "fresh":
		a := e.eval(x.Args[0])
		t := a.T
		if a.Sort == "Slice" {
			t = fmt.Sprintf("(s.base %s)", a.T)
		}
		return TV{fmt.Sprintf("(> (oroot %s) %s)", t, g.top(e.old)), "Bool", nil}
	case "recvN", "sendN", "recvAt", "sendAt":
		// channel history of channel c (G-CHAN): recvN(c), sendN(c), recvAt(c, k), sendAt(c, k)
		c := e.eval(x.Args[0])
		ct, ok := types.Unalias(c.Go).Underlying().(*types.Chan)
		if c.Go == nil || !ok {
			e.fail("%s needs a channel", x.Fn)
		}
		rN, rS, sN, sS := g.chanComps(ct.Elem())
		switch x.Fn {
		case "recvN":
			return TV{fmt.Sprintf("(select %s %s)", g.read(e.cur, rN), c.T), "Int", nil}
		case "sendN":
			return TV{fmt.Sprintf("(select %s %s)", g.read(e.cur, sN), c.T), "Int", nil}
		case "recvAt":
			k := e.eval(x.Args[1])
			return TV{fmt.Sprintf("(select (select %s %s) %s)", g.read(e.cur, rS), c.T, k.T), g.u.SortOf(ct.Elem()), ct.Elem()}
		default:
			k := e.eval(x.Args[1])
			return TV{fmt.Sprintf("(select (select %s %s) %s)", g.read(e.cur, sS), c.T, k.T), g.u.SortOf(ct.Elem()), ct.Elem()}
		}
	case "fld":
		a, k := e.eval(x.Args[0]), e.eval(x.Args[1])
		return TV{fmt.Sprintf("(fld %s %s)", a.T, k.T), "Int", nil}
	case "oldalloc":
		// oldalloc(o): reference o was already allocated in the old state
		a := e.eval(x.Args[0])
		t := a.T
		if a.Sort == "Slice" {
			t = fmt.Sprintf("(s.base %s)", a.T)
		}
		return TV{fmt.Sprintf("(<= (oroot %s) %s)", t, g.top(e.old)), "Bool", nil}
	case "allocated":
		a := e.eval(x.Args[0])
		t := a.T
		if a.Sort == "Slice" {
			t = fmt.Sprintf("(s.base %s)", a.T)
		}
		return TV{fmt.Sprintf("(<= (oroot %s) %s)", t, g.top(e.cur)), "Bool", nil}
	case "select":
		a, i := e.materialize(e.eval(x.Args[0])), e.materialize(e.eval(x.Args[1]))
		var et types.Type
		if mt, ok := a.Go.(*types.Map); ok && strings.HasPrefix(a.Sort, "(Array ") {
			et = mt.Elem()
		}
		return TV{fmt.Sprintf("(select %s %s)", a.T, i.T), arrayElemSort(a.Sort), et}
	case "store":
		a, i, v := e.materialize(e.eval(x.Args[0])), e.materialize(e.eval(x.Args[1])), e.materialize(e.eval(x.Args[2]))
		return TV{fmt.Sprintf("(store %s %s %s)", a.T, i.T, v.T), a.Sort, nil}
	case "ite":
		c, a, b := e.eval(x.Args[0]), e.materialize(e.eval(x.Args[1])), e.materialize(e.eval(x.Args[2]))
		a, b = e.unify(a, b)
		return TV{fmt.Sprintf("(ite %s %s %s)", c.T, a.T, b.T), a.Sort, a.Go}
	case "bytes":
		// bytes(x): the byte string held by a []byte, a byte array or a string
		if id, ok := x.Args[0].(*spec.Ident); ok {
			if c := e.globalBytesConst(id.Name); c != "" {
				return TV{c, "Bytes", nil}
			}
		}
		if sel, ok := x.Args[0].(*spec.Sel); ok {
			if id, ok := sel.X.(*spec.Ident); ok {
				if _, bound := e.vars[id.Name]; !bound {
					if p := g.prog.Pkgs[e.pkg]; p != nil {
						for _, ip := range p.Imports {
							if ip.Name == id.Name && ip.Types != nil {
								if v, ok := ip.Types.Scope().Lookup(sel.Name).(*types.Var); ok {
									if c := g.globalBytes(v.Pkg().Path(), v.Name(), v.Type()); c != "" {
										return TV{c, "Bytes", nil}
									}
								}
							}
						}
					}
				}
			}
		}
		a := e.eval(x.Args[0])
		mk := func(rowT, off, n Term) TV {
			return TV{fmt.Sprintf("(mk.bytes %s (win %s %s %s))", n, rowT, off, n), "Bytes", nil}
		}
		if a.Sort == "Str" {
			return mk(fmt.Sprintf("(str.bytes %s)", a.T), "0", fmt.Sprintf("(slen %s)", a.T))
		}
		if a.Go != nil {
			t := a.Go
			isRef := a.Sort == atRefSort
			if pt := deref(t); pt != nil && a.Sort != atRefSort {
				t, isRef = pt, true
			}
			switch tt := types.Unalias(t).Underlying().(type) {
			case *types.Slice:
				k := g.u.ElemComp(tt.Elem())
				return mk(fmt.Sprintf("(select %s (s.base %s))", g.read(e.cur, k), a.T), fmt.Sprintf("(s.off %s)", a.T), fmt.Sprintf("(s.len %s)", a.T))
			case *types.Array:
				if isRef {
					k := g.u.ElemComp(tt.Elem())
					return mk(fmt.Sprintf("(select %s %s)", g.read(e.cur, k), a.T), "0", fmt.Sprint(tt.Len()))
				}
				return mk(a.T, "0", fmt.Sprint(tt.Len()))
			}
		}
		e.fail("bytes() of %s", a.Sort)
	case "subslice":
		// subslice(s, lo, hi): the Go slice expression s[lo:hi]
		a, lo, hi := e.eval(x.Args[0]), e.eval(x.Args[1]), e.eval(x.Args[2])
		if a.Sort != "Slice" {
			e.fail("subslice() needs a slice")
		}
		return TV{fmt.Sprintf("(mk.slice (s.base %s) (+ (s.off %s) %s) (- %s %s) (- (s.cap %s) %s))", a.T, a.T, lo.T, hi.T, lo.T, a.T, lo.T), "Slice", a.Go}
	case "deref":
		// deref(p): value of the cell p points to (non-aggregate pointee)
		a := e.eval(x.Args[0])
		et := deref(a.Go)
		if a.Go == nil || et == nil {
			e.fail("deref() needs a pointer")
		}
		if isAggregate(et) {
			return TV{a.T, atRefSort, et}
		}
		return TV{g.load(e.cur, g.placeOfRef(a.T, et)), g.u.SortOf(et), et}
	case "mkbytes":
		n, a := e.eval(x.Args[0]), e.materialize(e.eval(x.Args[1]))
		return TV{fmt.Sprintf("(mk.bytes %s %s)", n.T, a.T), "Bytes", nil}
	case "blen":
		a := e.eval(x.Args[0])
		return TV{fmt.Sprintf("(b.len %s)", a.T), "Int", nil}
	case "bat":
		a, i := e.eval(x.Args[0]), e.eval(x.Args[1])
		return TV{fmt.Sprintf("(select (b.arr %s) %s)", a.T, i.T), "Int", nil}
	case "bcat":
		// bcat(a, b): concatenation of two byte strings
		a, b2 := e.eval(x.Args[0]), e.eval(x.Args[1])
		return TV{fmt.Sprintf("(b.cat %s %s)", a.T, b2.T), "Bytes", nil}
	case "bsub":
		// bsub(b, lo, hi): sub-string [lo,hi)
		a, lo, hi := e.eval(x.Args[0]), e.eval(x.Args[1]), e.eval(x.Args[2])
		return TV{fmt.Sprintf("(mk.bytes (- %s %s) (win (b.arr %s) %s (- %s %s)))", hi.T, lo.T, a.T, lo.T, hi.T, lo.T), "Bytes", nil}
	case "row":
		// row(s): the backing row of slice s as an SMT array
		a := e.eval(x.Args[0])
		st, ok := types.Unalias(a.Go).Underlying().(*types.Slice)
		if a.Go == nil || !ok {
			e.fail("row() needs a slice")
		}
		k := g.u.ElemComp(st.Elem())
		return TV{fmt.Sprintf("(select %s (s.base %s))", g.read(e.cur, k), a.T), "(Array Int " + g.u.SortOf(st.Elem()) + ")", nil}
	case "seen":
		// seen(N): the set of keys already visited by the map range loop N
		// (1-based loop number, as in `invariant N`)
		n, ok := x.Args[0].(*spec.IntLit)
		if !ok {
			e.fail("seen(N) needs a literal loop number")
		}
		for h, li := range g.loops {
			if fmt.Sprint(li.ord) != n.Val {
				continue
			}
			for _, in := range h.Instrs {
				nx, ok := in.(*ssa.Next)
				if !ok {
					continue
				}
				rng, ok := nx.Iter.(*ssa.Range)
				if !ok {
					continue
				}
				if mt, ok := types.Unalias(rng.X.Type()).Underlying().(*types.Map); ok {
					k := g.seenComp(rng, g.u.SortOf(mt.Key()))
					return TV{g.read(e.cur, k), g.u.compSort[k], nil}
				}
			}
		}
		e.fail("seen(%s): loop %s is not a map range loop", n.Val, n.Val)
	case "unbox":
		// unbox(iface, T): the value of (non-pointer) type T boxed in the interface
		a := e.eval(x.Args[0])
		tn := strings.ReplaceAll(x.Args[1].String(), " ", "")
		t := e.lookupType(tn)
		if t == nil || a.Sort != "Iface" {
			e.fail("unbox(iface, T): bad arguments")
		}
		return TV{fmt.Sprintf("(select %s (i.val %s))", g.read(e.cur, g.u.BoxComp(t)), a.T), g.u.SortOf(t), t}
	case "typeis":
		// typeis(iface, T): dynamic type test
		a := e.eval(x.Args[0])
		id, ok := x.Args[1].(*spec.Ident)
		var tn string
		if ok {
			tn = id.Name
		} else {
			tn = strings.ReplaceAll(x.Args[1].String(), " ", "")
		}
		if strings.HasPrefix(tn, "ptr(") && strings.HasSuffix(tn, ")") {
			tn = "*" + tn[4:len(tn)-1] // ptr(T): the pointer type *T
		}
		t := e.lookupType(tn)
		if t == nil {
			e.fail("typeis: unknown type %s", tn)
		}
		return TV{fmt.Sprintf("(= (i.typ %s) %d)", a.T, g.u.TypeID(t)), "Bool", nil}
	case "addr":
		// addr(x.f): the address of an aggregate field / variable (e.g. a mutex)
		a := e.eval(x.Args[0])
		if a.Sort != atRefSort {
			e.fail("addr() needs an addressable aggregate (struct or array field)")
		}
		return TV{a.T, "Int", types.NewPointer(a.Go)}
	case "errIsConst":
		// errIsConst(e, C): the result of errors.Is(e, C) for a typed integer constant C
		a, c := e.eval(x.Args[0]), e.eval(x.Args[1])
		if a.Sort != "Iface" || c.Sort != "Int" || c.Go == nil {
			e.fail("errIsConst(err, typed constant)")
		}
		if _, named := types.Unalias(c.Go).(*types.Named); !named {
			e.fail("errIsConst: %s is not a constant of a named type", x.Args[1])
		}
		g.u.Extra(errIsConstDecl)
		return TV{fmt.Sprintf("(f.errIsConst %s %d %s)", a.T, g.u.TypeID(c.Go), c.T), "Bool", nil}
	case "int", "int64", "int32", "uint32", "uint64", "uint8", "byte", "uint16", "int16", "uint":
		a := e.materialize(e.eval(x.Args[0]))
		return TV{a.T, "Int", nil}
	}
	sf := g.prog.Specs.Funcs[x.Fn]
	if sf == nil {
		e.fail("unknown spec function %s", x.Fn)
	}
	if len(sf.Params) != len(x.Args) {
		e.fail("%s expects %d arguments", x.Fn, len(sf.Params))
	}
	if sf.Macro {
		n := e.child()
		for i, p := range sf.Params {
			n.vars[p.Name] = e.eval(x.Args[i])
		}
		if sf.Pkg != "" {
			n.pkg = sf.Pkg // package-level names in a macro body resolve where it was written
		}
		return n.eval(sf.Body)
	}
	var args []string
	for i, a := range x.Args {
		v := e.materialize(e.eval(a))
		want, _ := e.sortName(sf.Params[i].Sort)
		if v.Sort == "Nil" {
			switch want {
			case "Slice":
				v = TV{"nil.slice", "Slice", nil}
			case "Iface":
				v = TV{"nil.iface", "Iface", nil}
			default:
				v = TV{"0", "Int", nil}
			}
		}
		if v.Sort != want {
			e.fail("argument %d of %s has sort %s, want %s", i+1, x.Fn, v.Sort, want)
		}
		args = append(args, v.T)
	}
	rs, _ := e.sortName(sf.Result)
	g.usedSpecFuncs[x.Fn] = true
	if len(args) == 0 {
		return TV{"f." + x.Fn, rs, nil}
	}
	return TV{fmt.Sprintf("(f.%s %s)", x.Fn, strings.Join(args, " ")), rs, nil}
}

func isConst(v ssa.Value) bool { _, ok := v.(*ssa.Const); return ok }

// globalBytesConst: a package-level []byte variable that is never written
// after initialisation denotes a constant byte string (assumption: nobody
// writes its backing array either).
func (e *Env) globalBytesConst(name string) string {
	if _, bound := e.vars[name]; bound {
		return ""
	}
	p := e.g.prog.Pkgs[e.pkg]
	if p == nil || p.Types == nil {
		return ""
	}
	v, ok := p.Types.Scope().Lookup(name).(*types.Var)
	if !ok {
		return ""
	}
	return e.g.globalBytes(v.Pkg().Path(), v.Name(), v.Type())
}

func (g *Gen) globalBytes(pkg, name string, t types.Type) string {
	sl, ok := types.Unalias(t).Underlying().(*types.Slice)
	if !ok {
		return ""
	}
	if b, ok := types.Unalias(sl.Elem()).Underlying().(*types.Basic); !ok || b.Kind() != types.Uint8 {
		return ""
	}
	key := g.u.GlobalComp(pkg, name, t)
	if g.prog.mutableGlobals()[key] {
		return ""
	}
	c := "gb." + sanitize(pkg+"."+name)
	if lit, ok := g.prog.globalInitString(pkg, name); ok {
		// initial value known from the package initialiser: a concrete literal
		arr := "((as const (Array Int Int)) 0)"
		for i := 0; i < len(lit); i++ {
			arr = fmt.Sprintf("(store %s %d %d)", arr, i, lit[i])
		}
		g.u.Extra(fmt.Sprintf("(define-fun %s () Bytes (mk.bytes %d %s))", c, len(lit), arr))
		return c
	}
	g.u.Extra(fmt.Sprintf("(declare-const %s Bytes)", c))
	return c
}
