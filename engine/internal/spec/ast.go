// Package spec implements the contract language: lexer, parser and AST.
//
// Contracts live in //@ comment lines of /repo/<pkg>/zz_verif_contracts.go
// (build tag verif, comment only) and in /verif/contracts/external/*.spec for
// dependencies (assumed contracts).
package spec

import "fmt"

// Expr is a contract expression.
type Expr interface{ String() string }

type Ident struct{ Name string }
type IntLit struct{ Val string }
type BoolLit struct{ Val bool }
type StrLit struct{ Val string }
type Call struct {
	Fn   string
	Args []Expr
}
type Sel struct {
	X    Expr
	Name string
}
type Index struct{ X, I Expr }
type Unary struct {
	Op string
	X  Expr
}
type Binary struct {
	Op   string
	L, R Expr
}
type Var struct {
	Name string
	Sort string
}
type Quant struct {
	Forall   bool
	Vars     []Var
	Triggers [][]Expr
	Body     Expr
}
type Cond struct{ C, A, B Expr }

// HeapRef names a heap component or ghost variable as an SMT array value:
// @H(pkg.T.f), @M(uint8), @C(int), @G(name).
type HeapRef struct {
	Kind string
	Name string
}

func (e *Ident) String() string   { return e.Name }
func (e *IntLit) String() string  { return e.Val }
func (e *BoolLit) String() string { return fmt.Sprint(e.Val) }
func (e *StrLit) String() string  { return fmt.Sprintf("%q", e.Val) }
func (e *Call) String() string {
	s := e.Fn + "("
	for i, a := range e.Args {
		if i > 0 {
			s += ", "
		}
		s += a.String()
	}
	return s + ")"
}
func (e *Sel) String() string    { return e.X.String() + "." + e.Name }
func (e *Index) String() string  { return e.X.String() + "[" + e.I.String() + "]" }
func (e *Unary) String() string  { return e.Op + e.X.String() }
func (e *Binary) String() string { return "(" + e.L.String() + " " + e.Op + " " + e.R.String() + ")" }
func (e *Quant) String() string {
	s := "exists"
	if e.Forall {
		s = "forall"
	}
	for i, v := range e.Vars {
		if i > 0 {
			s += ","
		}
		s += " " + v.Name + " " + v.Sort
	}
	return "(" + s + " :: " + e.Body.String() + ")"
}
func (e *Cond) String() string    { return "(" + e.C.String() + " ? " + e.A.String() + " : " + e.B.String() + ")" }
func (e *HeapRef) String() string { return "@" + e.Kind + "(" + e.Name + ")" }

// Clause is a labelled expression (requires / ensures / invariant / axiom / lemma).
type Clause struct {
	Label string
	Expr  Expr
	Loop  int    // invariants: 1-based loop ordinal
	Src   string // file:line
	Aux   bool
	U     bool     // invariant of the unconditional pass (ginvariant / gloopinv)
	Props []string // optional property override for this clause
	// lemmas proved by induction: `induct v > low` — the obligation is the
	// induction step ((v > low ==> body[v-1/v]) ==> body); well-founded because
	// v is bounded below by low, which must not mention v
	InductVar string
	InductLow Expr
}

// Subst replaces free occurrences of identifier name in e by repl.
func Subst(e Expr, name string, repl Expr) Expr {
	switch x := e.(type) {
	case *Ident:
		if x.Name == name {
			return repl
		}
		return x
	case *Call:
		n := &Call{Fn: x.Fn}
		for _, a := range x.Args {
			n.Args = append(n.Args, Subst(a, name, repl))
		}
		return n
	case *Sel:
		return &Sel{Subst(x.X, name, repl), x.Name}
	case *Index:
		return &Index{Subst(x.X, name, repl), Subst(x.I, name, repl)}
	case *Unary:
		return &Unary{x.Op, Subst(x.X, name, repl)}
	case *Binary:
		return &Binary{x.Op, Subst(x.L, name, repl), Subst(x.R, name, repl)}
	case *Cond:
		return &Cond{Subst(x.C, name, repl), Subst(x.A, name, repl), Subst(x.B, name, repl)}
	case *Quant:
		for _, v := range x.Vars {
			if v.Name == name {
				return x
			}
		}
		n := &Quant{Forall: x.Forall, Vars: x.Vars, Body: Subst(x.Body, name, repl)}
		for _, tr := range x.Triggers {
			var nt []Expr
			for _, t := range tr {
				nt = append(nt, Subst(t, name, repl))
			}
			n.Triggers = append(n.Triggers, nt)
		}
		return n
	}
	return e
}

// InductionStep builds the induction-step form of a universally quantified
// lemma body for `induct v > low`.
func InductionStep(c *Clause) (Expr, error) {
	q, ok := c.Expr.(*Quant)
	if !ok || !q.Forall {
		return nil, fmt.Errorf("%s: induct needs a forall lemma", c.Src)
	}
	found := false
	for _, v := range q.Vars {
		if v.Name == c.InductVar {
			found = true
		}
	}
	if !found {
		return nil, fmt.Errorf("%s: induct variable %s is not bound by the lemma", c.Src, c.InductVar)
	}
	if Subst(c.InductLow, c.InductVar, &IntLit{"0"}).String() != c.InductLow.String() {
		return nil, fmt.Errorf("%s: the lower bound of induct must not mention %s", c.Src, c.InductVar)
	}
	prev := &Binary{"-", &Ident{c.InductVar}, &IntLit{"1"}}
	ih := &Binary{"==>", &Binary{">", &Ident{c.InductVar}, c.InductLow}, Subst(q.Body, c.InductVar, prev)}
	return &Quant{Forall: true, Vars: q.Vars, Triggers: q.Triggers, Body: &Binary{"==>", ih, q.Body}}, nil
}

// SpecFunc is a spec function (uninterpreted when Body == nil) or a macro.
type SpecFunc struct {
	Name   string
	Params []Var
	Result string
	Body   Expr
	Macro  bool
	Opaque bool // definition hidden unless the contract says `reveal name`
	Axiomatic bool // defined by a quantified axiom (declare-fun + forall) so that applications may occur in patterns
	Src    string
	Pkg    string // package of the defining contract file (macros are evaluated in its scope)
}

// FuncContract is the contract of one Go function, method, closure or
// interface method.
type FuncContract struct {
	Pkg       string // import path of the package the contract belongs to
	Name      string // ssa RelString-like: F, (*T).M, (T).M, F$1 ; interface method: iface T.M
	Iface     bool
	Params    []string
	Results   []string
	Props     []string
	Requires  []*Clause
	Ensures   []*Clause
	// Guarantees: postconditions verified WITHOUT the function's preconditions
	// (in a second pass over the body) and therefore usable by callers at every
	// call, also where a precondition could not be proved. Their loop
	// invariants are the Invs with U set.
	Guarantees []*Clause
	Assumes   []*Clause // `assumes label: expr`: a fact about the function's result that callers may use
	// at EVERY call (whether or not the preconditions were proved) and that is NOT
	// verified against the body: a trusted clause on an otherwise verified contract
	Invs      []*Clause
	Asserts   []*Clause // assert N label: expr (checked at call ordinal N) — unused for now
	Modifies  []string
	HasMod    bool
	Pure      bool
	Trusted   bool
	Inline    bool
	NoBody    bool // do not verify body (e.g. abstracted)
	Replay    string
	Src       string
	Fresh     []string // result names that are freshly allocated
	Reveal    []string // opaque spec functions whose definition this function's obligations may use
	Writes    []string // parameters through which caller-visible memory is written (with HasWrites)
	HasWrites bool     // `writes` given: heap effects are exactly the memory the listed parameters point to
	Opts      map[string]string
	AuxLabels map[string]bool
}

// File is a parsed contract file.
type File struct {
	Path      string
	Pkg       string
	Sorts     []string
	Consts    []Var
	Ghosts    []Var
	GhostPkg  map[string]string // ghost -> package it models (the `package` line in force at its declaration)
	Funcs     []*SpecFunc
	Axioms    []*Clause
	Lemmas    []*Clause
	Contracts []*FuncContract
	Imports   map[string]string // alias -> import path (for type names in @H refs)
	Counters  []Counter         // `counter <ghost> <func>`: call counters (instrumentation ghosts)
}

// Counter declares an Int ghost that is incremented immediately before every
// call of Func (key "<pkgpath>::<Name>", interface methods "<pkgpath>::iface T.M").
type Counter struct {
	Ghost string
	Func  string
	OnOK  bool // `okcounter`: incremented after the call, iff the callee's error result is nil
}

// Idents collects the identifier names occurring in e (bound or free).
func Idents(e Expr, out map[string]bool) {
	switch x := e.(type) {
	case *Ident:
		out[x.Name] = true
	case *Call:
		for _, a := range x.Args {
			Idents(a, out)
		}
	case *Sel:
		Idents(x.X, out)
	case *Index:
		Idents(x.X, out)
		Idents(x.I, out)
	case *Unary:
		Idents(x.X, out)
	case *Binary:
		Idents(x.L, out)
		Idents(x.R, out)
	case *Cond:
		Idents(x.C, out)
		Idents(x.A, out)
		Idents(x.B, out)
	case *Quant:
		Idents(x.Body, out)
	}
}
