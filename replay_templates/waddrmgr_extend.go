package waddrmgr

// Replay for the C03 obligations of extendAddresses (scenario style): on an
// UNLOCKED manager the default account is extended up to an index (what wallet
// recovery does), and the private key of the last extended address is asked for
// through the public API. "Whenever the wallet is unlocked, the private key it
// returns for any such address - ... extended during recovery ... - is the key of
// exactly that public key": the request must succeed and the key must match the
// address' public key. A second scenario extends a watch-only (imported xpub)
// account of the same unlocked manager, which must not crash.

import (
	"fmt"
	"testing"

	"github.com/btcsuite/btcd/btcutil/hdkeychain"
	"github.com/btcsuite/btcwallet/walletdb"
)

func TestGovcReplay(t *testing.T) {
	m := govcModel(t)
	_ = m["$obligation"]
	tearDown, db, mgr := setupManager(t)
	defer tearDown()

	scopedMgr, err := mgr.FetchScopedKeyManager(KeyScopeBIP0084)
	if err != nil {
		fmt.Println("setup failed:", err)
		return
	}

	bad := 0
	err = walletdb.Update(db, func(tx walletdb.ReadWriteTx) error {
		ns := tx.ReadWriteBucket(waddrmgrNamespaceKey)
		if err := mgr.Unlock(ns, privPassphrase); err != nil {
			return err
		}
		// control: an address issued the normal way is signable
		next, err := scopedMgr.NextExternalAddresses(ns, 0, 1)
		if err != nil {
			return err
		}
		if _, err := next[0].(ManagedPubKeyAddress).PrivKey(); err != nil {
			fmt.Println("control failed: PrivKey of a NextExternalAddresses address:", err)
			return err
		}
		// scenario 1: extend while unlocked
		if err := scopedMgr.ExtendExternalAddresses(ns, 0, 6); err != nil {
			return err
		}
		last, err := scopedMgr.LastExternalAddress(ns, 0)
		if err != nil {
			return err
		}
		pka := last.(ManagedPubKeyAddress)
		_, path, _ := pka.DerivationInfo()
		priv, err := pka.PrivKey()
		switch {
		case err != nil:
			fmt.Printf("unlocked manager: PrivKey() of extended address %s (index %d) failed: %v\n",
				last.Address(), path.Index, err)
			bad++
		case !priv.PubKey().IsEqual(pka.PubKey()):
			fmt.Printf("unlocked manager: PrivKey() of extended address %s is not the key of its public key\n",
				last.Address())
			bad++
		}
		return nil
	})
	if err != nil {
		fmt.Println("setup failed:", err)
		return
	}

	// scenario 2: a watch-only (imported xpub) account, manager still unlocked
	func() {
		defer func() {
			if r := recover(); r != nil {
				fmt.Println("unlocked manager: extending a watch-only account panicked:", r)
				bad++
			}
		}()
		seed := make([]byte, 32)
		seed[0] = 9
		root, _ := hdkeychain.NewMaster(seed, mgr.ChainParams())
		acct, _ := root.Derive(hdkeychain.HardenedKeyStart + 84) // nolint:staticcheck
		acctPub, _ := acct.Neuter()
		err := walletdb.Update(db, func(tx walletdb.ReadWriteTx) error {
			ns := tx.ReadWriteBucket(waddrmgrNamespaceKey)
			num, err := scopedMgr.NewAccountWatchingOnly(ns, "xpubacct", acctPub, 0, nil)
			if err != nil {
				return err
			}
			return scopedMgr.ExtendExternalAddresses(ns, num, 3)
		})
		if err != nil {
			fmt.Println("extending a watch-only account failed:", err)
			bad++
		}
	}()

	if bad > 0 {
		fmt.Printf("REPLAY-VIOLATION extended addresses are not signable / extension crashes (%d observations)\n", bad)
		return
	}
	fmt.Println("REPLAY-OK")
}
