#!/usr/bin/env python3
"""Regenerates /verif/MANIFEST.json from properties.cfg.json + obligations.baseline.json.
A property is claimed iff it has baseline obligations; all others go to not_applicable
with the reason recorded in properties.cfg.json (not_applicable_reason)."""
import json, subprocess
V = '/verif'
cfg = json.load(open(V + '/properties.cfg.json'))['properties']
base = json.load(open(V + '/obligations.baseline.json'))
props = [json.loads(l)['id'] for l in open(V + '/properties.jsonl')]
hooks = subprocess.run(['git', '-C', '/repo', 'log', '--format=%h %s'], capture_output=True, text=True).stdout.splitlines()
hook_commits = [l.split()[0] for l in hooks if 'verif hooks' in l]
m = {
 "version": 1,
 "setup_cmd": "cd /verif/engine && GOFLAGS=-mod=mod GOPROXY=off GOSUMDB=off GOTOOLCHAIN=local go build -o /verif/bin/govc ./cmd/govc",
 "hooks": {
  "guard": "verif",
  "enable": "-tags verif: go/packages BuildFlags when loading /repo, go test -tags verif for replays; the guarded files are comment-only contract files /repo/<pkg>/zz_verif_contracts.go",
  "baseline_off_cmd": "for m in . ./wallet/txauthor ./wallet/txrules ./wallet/txsizes ./walletdb ./wtxmgr; do (cd /repo/$m && GOFLAGS=-mod=mod go test -json -vet=off -count=1 -timeout 25m ./...); done",
  "source_commits": hook_commits,
  "add_only": True,
 },
 "engines": [{"name": "govc", "path": "/verif/engine", "serves_properties": [p for p in props if base.get(p)],
   "kind_free_text": "self-written VC generator over go/ssa (weakest-precondition style passive encoding, contracts in //@ comment files), obligations discharged by z3 5.1.0 / cvc5 1.0 / z3 4.8.12"}],
 "checks": [], "not_applicable": [],
 "notes": "Contracts live in /repo/<pkg>/zz_verif_contracts.go (tag verif) and /verif/contracts/external/*.spec (assumed contracts on dependencies). obligations.baseline.json lists the obligations that discharge on the unchanged tree; a check fails iff one of them no longer discharges. See DESIGN.md.",
}
for p in props:
    c = cfg.get(p, {})
    if base.get(p):
        m["checks"].append({
         "property_id": p,
         "quick_cmd": f"/verif/bin/govc check --property {p} --tier quick",
         "thorough_cmd": f"/verif/tools/thorough.sh {p}",
         "evidence_file": f"/verif/evidence/{p}.json",
         "replay_cmd_template": "cat {path}",
         "engine": "govc",
         "level_claimed": {"category": "proof", "text": c.get("level_text", ""), "design_ref": c.get("design_ref", "DESIGN.md §6 " + p)},
         "level_note": c.get("level_note", ""),
         "technique": c.get("technique", "contract-based deductive verification: VCs generated from go/ssa of the real functions, discharged by SMT (z3/cvc5)"),
        })
    else:
        m["not_applicable"].append({"property_id": p, "reason": c.get("not_applicable_reason", "no obligations of this property discharge yet (contracts under construction); not claimed")})
json.dump(m, open(V + '/MANIFEST.json', 'w'), indent=1)
print("claimed:", [c["property_id"] for c in m["checks"]])
