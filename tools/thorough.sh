#!/bin/bash
# thorough tier of one property: (1) the must-fail corpus (seeded property-breaking changes applied to a scratch copy —
# each must be reported; results go into the evidence file), (2) every generated obligation (not only the baseline) with
# long solver time-outs. Exit status = that of the check on /repo's current tree.
prop=$1
mkdir -p /verif/replays
mf=/verif/replays/mustfail_$prop.txt
/verif/tools/mustfail.sh "$prop" > "$mf" 2>&1
cat "$mf"
GOVC_MUSTFAIL_FILE="$mf" exec /verif/bin/govc check --property "$prop" --tier thorough
