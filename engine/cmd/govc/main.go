// govc — contract-based deductive verifier for the Go code in /repo.
//
//	govc check --property C07 [--tier quick|thorough]
//	govc baseline --write [--property C07]
//	govc dump --func <pkg::name> [--obl <name>]
package main

import (
	"crypto/sha256"
	"encoding/hex"
	"encoding/json"
	"flag"
	"fmt"
	"os"
	"path/filepath"
	"runtime"
	"sort"
	"strconv"
	"strings"
	"sync"
	"syscall"
	"time"

	"govc/internal/smt"
	"govc/internal/spec"
	"govc/internal/vc"
)

type propCfg struct {
	Packages   []string `json:"packages"`
	Paper      []string `json:"paper_steps"`
	Assumed    []string `json:"assumed"`
	Bounded    []string `json:"bounded_standins"`
	LevelNote  string   `json:"level_note"`
	ExtraFuncs []string `json:"extra_funcs"` // contracts verified for this property although tagged otherwise
	BuildDeps  []string `json:"build_deps"`  // dependency packages whose small functions may be inlined (bodies built)
}

type config struct {
	Properties map[string]*propCfg `json:"properties"`
	// dependency packages whose small functions may be inlined (bodies built);
	// global, so that an obligation is the same in every property run
	BuildDeps []string `json:"build_deps"`
	// AnalysisPkgs: the /repo packages that are loaded and built for EVERY property, so that
	// whole-program facts (effect summaries, the interior-reference analysis) and the set of
	// contracts in force do not depend on which property is being checked
	AnalysisPkgs []string `json:"analysis_pkgs"`
}

type knownFinding struct {
	Property   string `json:"property"`
	Obligation string `json:"obligation"`
	Status     string `json:"status"` // known | fixed
	Commit     string `json:"commit,omitempty"`
	What       string `json:"what"`
	Witness    string `json:"witness,omitempty"`
}

type oblResult struct {
	O *vc.Obligation
	R smt.Result
}

var (
	verifDir = envOr("VERIF_DIR", "/verif")
	repoDir  = envOr("REPO_DIR", "/repo")
)

func envOr(k, d string) string {
	if v := os.Getenv(k); v != "" {
		return v
	}
	return d
}

func main() {
	if len(os.Args) < 2 {
		fmt.Fprintln(os.Stderr, "usage: govc check|baseline|dump ...")
		os.Exit(2)
	}
	defer smt.Cleanup()
	loadSkip()
	switch os.Args[1] {
	case "check":
		os.Exit(cmdCheck(os.Args[2:]))
	case "baseline":
		os.Exit(cmdBaseline(os.Args[2:]))
	case "dump":
		os.Exit(cmdDump(os.Args[2:]))
	case "modset":
		os.Exit(cmdModset(os.Args[2:]))
	default:
		fmt.Fprintln(os.Stderr, "unknown command", os.Args[1])
		os.Exit(2)
	}
}

func loadConfig() (*config, error) {
	var c config
	data, err := os.ReadFile(filepath.Join(verifDir, "properties.cfg.json"))
	if err != nil {
		return nil, err
	}
	if err := json.Unmarshal(data, &c); err != nil {
		return nil, err
	}
	return &c, nil
}

func loadBaseline() map[string][]string {
	m := map[string][]string{}
	data, err := os.ReadFile(filepath.Join(verifDir, "obligations.baseline.json"))
	if err == nil {
		json.Unmarshal(data, &m)
	}
	return m
}

// lockVerif takes an exclusive lock for updating the baseline files.
func lockVerif() func() {
	f, err := os.OpenFile(filepath.Join(verifDir, ".baseline.lock"), os.O_CREATE|os.O_RDWR, 0o644)
	if err != nil {
		return func() {}
	}
	syscall.Flock(int(f.Fd()), syscall.LOCK_EX)
	return func() {
		syscall.Flock(int(f.Fd()), syscall.LOCK_UN)
		f.Close()
	}
}

func loadSkip() {
	var l []string
	data, err := os.ReadFile(filepath.Join(verifDir, "unproved_clauses.json"))
	if err == nil {
		json.Unmarshal(data, &l)
	}
	for _, c := range l {
		vc.SkipClauses[c] = true
	}
}

func saveSkip() error {
	var l []string
	for c := range vc.SkipClauses {
		l = append(l, c)
	}
	sort.Strings(l)
	data, _ := json.MarshalIndent(l, "", " ")
	return os.WriteFile(filepath.Join(verifDir, "unproved_clauses.json"), append(data, '\n'), 0o644)
}

func loadKnown() []knownFinding {
	var k []knownFinding
	data, err := os.ReadFile(filepath.Join(verifDir, "known_findings.json"))
	if err == nil {
		json.Unmarshal(data, &k)
	}
	return k
}

func hasProp(props []string, p string) bool {
	for _, x := range props {
		if x == p {
			return true
		}
	}
	return false
}

func (g *genOutput) revealText(o *vc.Obligation) string {
	var b strings.Builder
	names := o.Reveal
	if o.Kind == "lemma" && len(names) == 0 {
		for n := range g.reveal {
			names = append(names, n)
		}
		sort.Strings(names)
	}
	for _, n := range names {
		b.WriteString(g.reveal[n])
	}
	return b.String()
}

// revealRelaxed: in quantifier-free mode opaque definitions cannot be stated
// as axioms; they are simply left uninterpreted.
func (g *genOutput) revealRelaxed(o *vc.Obligation) string { return "" }

type genOutput struct {
	reveal    map[string]string
	obls      []*vc.Obligation
	genErrs   map[string]string // function -> error
	unbound   []string
	funcs     []string
	prelude   string
	relaxed   string
	axioms    []string
	trusted   []string
	assumedCs []string
	loadS     float64
	genS      float64
}

// generate loads packages and generates all obligations of the property.
func generate(cfg *config, prop string) (*genOutput, error) {
	pc := cfg.Properties[prop]
	if pc == nil {
		return nil, fmt.Errorf("property %s not configured", prop)
	}
	t0 := time.Now()
	prog, err := vc.Load(repoDir, unionPkgs(pc.Packages, cfg.AnalysisPkgs), filepath.Join(verifDir, "contracts/external"))
	if err != nil {
		return nil, err
	}
	for _, d := range cfg.AnalysisPkgs {
		prog.BuildPkg(d)
	}
	out := &genOutput{genErrs: map[string]string{}}
	out.loadS = time.Since(t0).Seconds()
	t1 := time.Now()
	u := vc.NewUniverse()
	for _, d := range append(append([]string{}, cfg.BuildDeps...), pc.BuildDeps...) {
		prog.BuildPkg(d)
	}
	prog.ExpandAutoRules(u)
	specText, axioms, err := vc.SpecPrelude(prog, u)
	if err != nil {
		return nil, err
	}
	out.axioms = axioms
	var keys []string
	for k := range prog.Specs.Contracts {
		keys = append(keys, k)
	}
	sort.Strings(keys)
	for _, k := range keys {
		c := prog.Specs.Contracts[k]
		if c.Trusted || c.Iface || strings.Contains(c.Name, "@") || strings.HasPrefix(c.Name, "field ") {
			if hasProp(c.Props, prop) || len(c.Props) == 0 {
				// listed as trusted only if used; filled below
			}
			continue
		}
		// a contract is verified for the properties it names and for those named
		// on single clauses (`ensures label@C17: …`); such a clause's obligations
		// belong to the clause's properties only
		viaClause := !hasProp(c.Props, prop) && clauseHasProp(c, prop)
		if !hasProp(c.Props, prop) && !viaClause {
			continue
		}
		fn := prog.LookupFunc(c)
		if fn == nil {
			out.unbound = append(out.unbound, k)
			continue
		}
		if c.NoBody {
			continue
		}
		obls, used, err := vc.GenFunctionInfo(prog, u, fn, c)
		if err != nil {
			out.genErrs[k] = err.Error()
		}
		out.funcs = append(out.funcs, k)
		for _, o := range obls {
			if hasProp(o.Props, prop) {
				out.obls = append(out.obls, o)
			}
		}
		out.assumedCs = append(out.assumedCs, used...)
	}
	lem, err := vc.LemmaObligations(prog, u)
	if err != nil {
		return nil, err
	}
	for _, l := range lem {
		if hasProp(l.Props, prop) {
			out.obls = append(out.obls, l)
		}
	}
	out.prelude = u.Prelude(prog.Specs) + specText
	out.reveal = u.Reveal
	// vacuity canary: the axioms and revealed definitions must be consistent
	{
		var b strings.Builder
		var names []string
		for n := range u.Reveal {
			names = append(names, n)
		}
		sort.Strings(names)
		for _, n := range names {
			b.WriteString(u.Reveal[n])
		}
		out.obls = append(out.obls, &vc.Obligation{Name: "prelude#cover.axioms_consistent", Func: "prelude", Kind: "cover",
			Label: "axioms_consistent", Cover: true, Script: b.String(), Relaxed: "", Props: []string{prop}, FullCover: true})
	}
	out.relaxed = vc.RelaxPrelude(out.prelude, u.RelaxDef)
	out.genS = time.Since(t1).Seconds()
	// trusted contracts actually used
	seen := map[string]bool{}
	for _, a := range out.assumedCs {
		if seen[a] {
			continue
		}
		seen[a] = true
	}
	for a := range seen {
		out.trusted = append(out.trusted, a)
	}
	sort.Strings(out.trusted)
	return out, nil
}

func solveAll(g *genOutput, obls []*vc.Obligation, timeout time.Duration) []oblResult {
	res := make([]oblResult, len(obls))
	// every worker races two to four solver processes: half the cores keeps
	// each solver at full speed, so that the measured times (admission limit
	// of the baseline) are those of the solver, not of the scheduler
	workers := runtime.NumCPU() / 2
	if workers < 2 {
		workers = 2
	}
	var wg sync.WaitGroup
	ch := make(chan int)
	for w := 0; w < workers; w++ {
		wg.Add(1)
		go func() {
			defer wg.Done()
			for i := range ch {
				o := obls[i]
				if o.Cover && o.FullCover {
					// axioms (quantified) must not be contradictory: unsat = broken
					res[i] = oblResult{o, smt.AnyUnsat(g.prelude+o.Script, 8*time.Second)}
					continue
				}
				if o.Cover {
					// vacuity guard: quantifier-free relaxation, short time-out;
					// only "unsat" (nothing reaches this point) counts as failure
					r := smt.Solve(g.relaxed+g.revealRelaxed(o)+o.Relaxed, 3*time.Second)
					if r.Status != "unsat" {
						// the relaxation drops the quantified axioms and facts, so a
						// contradiction that needs them (e.g. a range fact against the
						// reference model) is only visible in the full script
						full := g.prelude + g.revealText(o) + o.Script
						if cr, ok := cacheGet(full, 3*time.Second); ok {
							r = cr
						} else {
							r = smt.Solve(full, 3*time.Second)
							cachePut(full, 3*time.Second, r)
						}
					}
					res[i] = oblResult{o, r}
					continue
				}
				rev := g.revealText(o)
				if o.Kind == "lemma" {
					// a lemma must not assume itself (nor later lemmas)
					r := smt.Solve(dropLemmas(g.prelude, o.Label)+rev+o.Script, timeout)
					res[i] = oblResult{o, r}
					continue
				}
				to := timeout
				if (o.Kind == "safety" || o.Kind == "pre") && to > 6*time.Second {
					to = 6 * time.Second
				}
				full := g.prelude + rev + o.Script
				if cr, ok := cacheGet(full, to); ok {
					res[i] = oblResult{o, cr}
					continue
				}
				r := smt.Solve(full, to)
				cachePut(full, to, r)
				if r.Status != "unsat" && r.Status != "sat" && o.Relaxed != "" {
					// no verdict with quantifiers: look for a candidate
					// counterexample in the quantifier-free relaxation
					rr := smt.Solve(g.relaxed+g.revealRelaxed(o)+o.Relaxed, 5*time.Second)
					if rr.Status == "sat" {
						r.Model = rr.Model
						r.Candidate = true
					}
				}
				res[i] = oblResult{o, r}
			}
		}()
	}
	for i := range obls {
		ch <- i
	}
	close(ch)
	wg.Wait()
	return res
}

// Result cache for `govc baseline` only (GOVC_CACHE=<dir>): the verdict of a
// script is reused when exactly the same script (prelude included) is solved
// again with the same time-out, which makes the fixpoint rounds of a rebaseline
// cheap. `govc check` never uses it: every registered run solves everything.
func cacheFile(script string, to time.Duration) string {
	dir := os.Getenv("GOVC_CACHE")
	if dir == "" {
		return ""
	}
	h := sha256.Sum256([]byte(fmt.Sprintf("%d\n%s", to/time.Millisecond, script)))
	return filepath.Join(dir, hex.EncodeToString(h[:]))
}

func cacheGet(script string, to time.Duration) (smt.Result, bool) {
	f := cacheFile(script, to)
	if f == "" {
		return smt.Result{}, false
	}
	data, err := os.ReadFile(f)
	if err != nil {
		return smt.Result{}, false
	}
	var r smt.Result
	if json.Unmarshal(data, &r) != nil {
		return smt.Result{}, false
	}
	return r, true
}

func cachePut(script string, to time.Duration, r smt.Result) {
	f := cacheFile(script, to)
	if f == "" {
		return
	}
	os.MkdirAll(filepath.Dir(f), 0o755)
	data, _ := json.Marshal(smt.Result{Status: r.Status, Solver: r.Solver, Time: r.Time})
	os.WriteFile(f, data, 0o644)
}

func cmdDump(args []string) int {
	fs := flag.NewFlagSet("dump", flag.ExitOnError)
	prop := fs.String("property", "", "property id")
	obl := fs.String("obl", "", "obligation name (substring)")
	relaxed := fs.Bool("relaxed", false, "print the quantifier-free relaxation")
	fs.Parse(args)
	cfg, err := loadConfig()
	if err != nil {
		fmt.Fprintln(os.Stderr, "ERROR", err)
		return 2
	}
	g, err := generate(cfg, *prop)
	if err != nil {
		fmt.Fprintln(os.Stderr, "ERROR", err)
		return 2
	}
	for k, e := range g.genErrs {
		fmt.Fprintf(os.Stderr, "GEN-ERROR %s: %s\n", k, e)
	}
	for _, o := range g.obls {
		if *obl == "" {
			fmt.Println(o.Name)
		} else if strings.Contains(o.Name, *obl) && *relaxed {
			fmt.Printf("; ---- %s (relaxed)\n%s%s(check-sat)\n(get-model)\n", o.Name, g.relaxed, o.Relaxed)
		} else if strings.Contains(o.Name, *obl) {
			fmt.Printf("; ---- %s\n%s%s%s(check-sat)\n(get-model)\n", o.Name, g.prelude, g.revealText(o), o.Script)
		}
	}
	return 0
}

func cmdBaseline(args []string) int {
	fs := flag.NewFlagSet("baseline", flag.ExitOnError)
	write := fs.Bool("write", false, "write obligations.baseline.json")
	prop := fs.String("property", "", "only this property")
	maxT := fs.Float64("max", 5.0, "admit only obligations discharged within this many seconds")
	fs.Parse(args)
	cfg, err := loadConfig()
	if err != nil {
		fmt.Fprintln(os.Stderr, "ERROR", err)
		return 2
	}
	base := loadBaseline()
	var props []string
	for p := range cfg.Properties {
		if *prop == "" || p == *prop {
			props = append(props, p)
		}
	}
	sort.Strings(props)
	for _, p := range props {
		for round := 1; ; round++ {
			g, err := generate(cfg, p)
			if err != nil {
				fmt.Fprintln(os.Stderr, "ERROR", p, err)
				return 2
			}
			for k, e := range g.genErrs {
				fmt.Printf("GEN-ERROR %s: %s\n", k, e)
			}
			for _, k := range g.unbound {
				fmt.Printf("UNBOUND %s\n", k)
			}
			res := solveAll(g, g.obls, 20*time.Second)
			var names []string
			grew := false
			for _, r := range res {
				ok := (!r.O.Cover && r.R.Status == "unsat") || (r.O.Cover && r.R.Status != "unsat")
				tag := "  "
				if ok && r.R.Time <= *maxT {
					names = append(names, r.O.Name)
					tag = "ok"
				} else if (r.O.Kind == "post" || r.O.Kind == "pre" || r.O.Kind == "inv.entry" || r.O.Kind == "inv.step" || r.O.Kind == "gpost" || r.O.Kind == "ginv.entry" || r.O.Kind == "ginv.step") && !vc.SkipClauses[r.O.Name] {
					// an unproved postcondition must not be assumed by callers, an
					// unproved precondition invalidates the callee's postconditions
					// at that call, an unproved invariant must not be assumed at
					// the loop head: exclude it and verify again (greatest fixpoint)
					vc.SkipClauses[r.O.Name] = true
					grew = true
				}
				fmt.Printf("%s %-8s %6.2fs %-7s %s\n", tag, r.R.Status, r.R.Time, r.R.Solver, r.O.Name)
			}
			sort.Strings(names)
			base[p] = names
			fmt.Printf("%s: round %d: %d obligations generated, %d admitted to baseline\n", p, round, len(res), len(names))
			if !grew || round >= 15 {
				break
			}
			fmt.Printf("%s: unproved postconditions found; verifying again without assuming them\n", p)
		}
	}
	if *write {
		// several baseline runs (one per property) may finish concurrently:
		// merge into the files under a lock
		unlock := lockVerif()
		defer unlock()
		loadSkip() // union with what other runs have added meanwhile
		if err := saveSkip(); err != nil {
			fmt.Fprintln(os.Stderr, "ERROR", err)
			return 2
		}
		disk := loadBaseline()
		for _, p := range props {
			disk[p] = base[p]
		}
		base = disk
		data, _ := json.MarshalIndent(base, "", " ")
		if err := os.WriteFile(filepath.Join(verifDir, "obligations.baseline.json"), append(data, '\n'), 0o644); err != nil {
			fmt.Fprintln(os.Stderr, "ERROR", err)
			return 2
		}
	}
	return 0
}

func cmdCheck(args []string) int {
	os.Unsetenv("GOVC_CACHE") // a check always solves every obligation
	fs := flag.NewFlagSet("check", flag.ExitOnError)
	prop := fs.String("property", "", "property id")
	tier := fs.String("tier", "quick", "quick|thorough")
	verbose := fs.Bool("v", false, "list every obligation")
	fs.Parse(args)
	if t := os.Getenv("VERIF_TIER"); t == "quick" || t == "thorough" {
		if !flagSet(fs, "tier") {
			*tier = t
		}
	}
	seed, _ := strconv.Atoi(os.Getenv("VERIF_SEED"))
	start := time.Now()
	cfg, err := loadConfig()
	if err != nil {
		fmt.Fprintln(os.Stderr, "ERROR", err)
		return 2
	}
	pc := cfg.Properties[*prop]
	if pc == nil {
		fmt.Fprintln(os.Stderr, "ERROR unknown property", *prop)
		return 2
	}
	baseline := loadBaseline()[*prop]
	inBase := map[string]bool{}
	for _, n := range baseline {
		inBase[n] = true
	}
	known := loadKnown()

	g, err := generate(cfg, *prop)
	violations := 0
	var vioLines []string
	replayDir := filepath.Join(verifDir, "replays", *prop)
	os.MkdirAll(replayDir, 0o755)
	report := func(obl string, info map[string]interface{}, confirmed bool) {
		// known finding?
		for _, k := range known {
			if k.Property == *prop && k.Obligation == obl && k.Status == "known" {
				fmt.Printf("KNOWN-FINDING: property=%s %s %s\n", *prop, obl, k.What)
				return
			}
		}
		path := filepath.Join(replayDir, sanitizeFile(obl)+".json")
		info["property"] = *prop
		info["obligation"] = obl
		data, _ := json.MarshalIndent(info, "", " ")
		os.WriteFile(path, data, 0o644)
		line := fmt.Sprintf("VIOLATION property=%s replay=%s", *prop, path)
		if !confirmed {
			line += " no-failing-input-found"
		}
		vioLines = append(vioLines, line)
		violations++
	}
	if err != nil {
		// load or contract failure: every baseline obligation is undischarged
		fmt.Fprintln(os.Stderr, "ERROR", err)
		if len(baseline) > 0 {
			report("load", map[string]interface{}{"reason": "verifier could not load /repo or its contracts", "error": err.Error()}, false)
		}
		for _, l := range vioLines {
			fmt.Println(l)
		}
		writeEvidence(*prop, *tier, seed, pc, nil, nil, nil, violations, time.Since(start).Seconds(), g)
		if violations > 0 {
			return 1
		}
		return 2
	}
	timeout := 20 * time.Second // baseline obligations discharge in <= 5 s on an idle machine
	if *tier == "thorough" {
		timeout = 60 * time.Second
	}
	// quick: baseline obligations only; thorough: everything generated
	var todo []*vc.Obligation
	gen := map[string]bool{}
	for _, o := range g.obls {
		gen[o.Name] = true
		if inBase[o.Name] || *tier == "thorough" {
			todo = append(todo, o)
		}
	}
	res := solveAll(g, todo, timeout)
	discharged := 0
	var undecided []string
	bySolver := map[string]*solverStat{}
	for _, r := range res {
		ok := (!r.O.Cover && r.R.Status == "unsat") || (r.O.Cover && r.R.Status != "unsat")
		if *verbose {
			fmt.Printf("%-8s %6.2fs %-7s %s\n", r.R.Status, r.R.Time, r.R.Solver, r.O.Name)
		}
		if !inBase[r.O.Name] {
			if !ok {
				undecided = append(undecided, r.O.Name+" ("+r.R.Status+")")
			}
			continue
		}
		if ok {
			discharged++
			s := bySolver[r.R.Solver]
			if s == nil {
				s = &solverStat{}
				bySolver[r.R.Solver] = s
			}
			s.Count++
			s.Total += r.R.Time
			if r.R.Time > s.Max {
				s.Max = r.R.Time
			}
			continue
		}
		info := map[string]interface{}{
			"kind": r.O.Kind, "source": r.O.Src, "solver_status": r.R.Status, "solver": r.R.Solver,
			"tried": r.R.Tried, "goal": r.O.Goal,
		}
		switch {
		case r.O.Cover:
			info["reason"] = "vacuity guard failed: this return point / precondition is no longer reachable"
			report(r.O.Name, info, false)
		case r.R.Status == "sat":
			info["model"] = trimModel(r.R.Model, r.O.ModelOf)
			info["reason"] = "obligation refuted: the solver found a state satisfying the preconditions in which the clause is false"
			confirmed := tryReplay(*prop, r.O, r.R, info)
			report(r.O.Name, info, confirmed)
		default:
			if (r.O.Kind == "safety" || r.O.Kind == "ovf") && !r.R.Candidate {
				undecided = append(undecided, r.O.Name+" ("+r.R.Status+")")
				continue
			}
			info["reason"] = "obligation discharged on the unchanged tree no longer discharges (" + r.R.Status + ")"
			info["solver_output"] = firstN(r.R.Output, 2000)
			confirmed := false
			if r.R.Candidate {
				info["model"] = trimModel(r.R.Model, r.O.ModelOf)
			}
			if r.R.Candidate || r.O.Replay != "" {
				// with a candidate model, or a scenario template that needs none
				confirmed = tryReplay(*prop, r.O, r.R, info)
			}
			report(r.O.Name, info, confirmed)
		}
	}
	// baseline obligations that were not generated at all
	for _, n := range baseline {
		if !gen[n] {
			reason := "obligation not generated: contract unbound or function outside the generator's subset after the change"
			fnKeyErr := ""
			for k, e := range g.genErrs {
				if strings.HasPrefix(n, displayKey(k)+"#") {
					fnKeyErr = e
				}
			}
			report(n, map[string]interface{}{"reason": reason, "generator_error": fnKeyErr, "unbound": g.unbound}, false)
		}
	}
	for k, e := range g.genErrs {
		fmt.Fprintf(os.Stderr, "GEN-ERROR %s: %s\n", k, e)
	}
	sort.Strings(vioLines)
	for _, l := range vioLines {
		fmt.Println(l)
	}
	wall := time.Since(start).Seconds()
	writeEvidence(*prop, *tier, seed, pc, baseline, res, bySolver, violations, wall, g)
	fmt.Printf("property %s: %d/%d baseline obligations discharged, %d violations, %d undecided (not claimed), load %.1fs gen %.1fs total %.1fs\n",
		*prop, discharged, len(baseline), violations, len(undecided), g.loadS, g.genS, wall)
	if violations > 0 {
		return 1
	}
	if len(baseline) == 0 {
		fmt.Fprintln(os.Stderr, "ERROR no baseline obligations for", *prop)
		return 2
	}
	return 0
}

type solverStat struct {
	Count int     `json:"count"`
	Total float64 `json:"total_s"`
	Max   float64 `json:"max_s"`
}

func displayKey(k string) string {
	k = strings.TrimPrefix(k, "github.com/btcsuite/btcwallet/")
	k = strings.TrimPrefix(k, "github.com/btcsuite/")
	return strings.Replace(k, "::", ".", 1)
}

func flagSet(fs *flag.FlagSet, name string) bool {
	set := false
	fs.Visit(func(f *flag.Flag) {
		if f.Name == name {
			set = true
		}
	})
	return set
}

func sanitizeFile(s string) string {
	r := strings.NewReplacer("/", "_", "(", "", ")", "", "*", "p", "#", "-", "$", "_", " ", "_", "~", "_")
	return r.Replace(s)
}

func firstN(s string, n int) string {
	if len(s) > n {
		return s[:n]
	}
	return s
}

// trimModel keeps the parameter constants of a model.
func trimModel(model string, names []string) map[string]string {
	out := map[string]string{}
	for _, n := range names {
		if v := modelValue(model, n); v != "" {
			out[n] = v
		}
	}
	return out
}

// modelValue extracts the value of a 0-ary constant from get-model output.
func modelValue(model, name string) string {
	key := "(define-fun " + name + " () "
	i := strings.Index(model, key)
	if i < 0 {
		return ""
	}
	rest := model[i+len(key):]
	// skip sort
	depth := 0
	j := 0
	for ; j < len(rest); j++ {
		c := rest[j]
		if c == '(' {
			depth++
		} else if c == ')' {
			depth--
		} else if (c == ' ' || c == '\n') && depth == 0 {
			break
		}
	}
	rest = strings.TrimSpace(rest[j:])
	// value up to the matching close paren of define-fun
	depth = 0
	for k := 0; k < len(rest); k++ {
		c := rest[k]
		if c == '(' {
			depth++
		} else if c == ')' {
			if depth == 0 {
				return strings.TrimSpace(rest[:k])
			}
			depth--
		}
	}
	return strings.TrimSpace(rest)
}

func writeEvidence(prop, tier string, seed int, pc *propCfg, baseline []string, res []oblResult,
	bySolver map[string]*solverStat, violations int, wall float64, g *genOutput) {
	if os.Getenv("GOVC_NO_EVIDENCE") != "" {
		return // must-fail corpus runs against a scratch copy: not evidence about /repo
	}
	discharged := 0
	var samples []map[string]interface{}
	var undecided []string
	inBase := map[string]bool{}
	for _, n := range baseline {
		inBase[n] = true
	}
	kinds := map[string]int{}
	for _, r := range res {
		ok := (!r.O.Cover && r.R.Status == "unsat") || (r.O.Cover && r.R.Status != "unsat")
		if inBase[r.O.Name] {
			if ok {
				discharged++
				kinds[r.O.Kind]++
			}
			if len(samples) < 6 && ok && (r.O.Kind == "post" || r.O.Kind == "lemma" || r.O.Kind == "inv.step" || r.O.Kind == "pre") {
				samples = append(samples, map[string]interface{}{
					"obligation": r.O.Name, "kind": r.O.Kind, "source": r.O.Src, "goal": firstN(r.O.Goal, 400),
					"smt_bytes": len(r.O.Script), "result": r.R.Status, "solver": r.R.Solver, "time_s": r.R.Time,
				})
			}
		} else if !ok {
			undecided = append(undecided, r.O.Name+" ("+r.R.Status+")")
		}
	}
	if len(samples) == 0 {
		for _, r := range res {
			if len(samples) < 3 {
				samples = append(samples, map[string]interface{}{"obligation": r.O.Name, "result": r.R.Status, "solver": r.R.Solver})
			}
		}
	}
	if len(samples) == 0 {
		samples = append(samples, map[string]interface{}{"note": "no obligation could be generated in this run"})
	}
	var trusted []string
	var funcs []string
	var axioms []string
	genErrs := map[string]string{}
	if g != nil {
		for _, t := range g.trusted {
			trusted = append(trusted, "assumed contract: "+displayKey(t))
		}
		for _, a := range g.axioms {
			axioms = append(axioms, "axiom: "+a)
		}
		for _, f := range g.funcs {
			funcs = append(funcs, displayKey(f))
		}
		genErrs = g.genErrs
	}
	trusted = append(trusted, axioms...)
	trusted = append(trusted,
		"VC generator govc (this repository's /verif/engine): go/ssa -> SMT-LIB translation is trusted code",
		"Go integers are mathematical Int with exact wrap-around on every + - * and conversion (no overflow assumption)",
		"memory model: typed heap components (Burstall), fresh allocation, no unsafe aliasing between distinct Go types",
		"external-frame: dependency functions without a contract modify only memory reachable from their pointer/slice arguments",
		"interior references: a pointer/slice is assumed not to point into an inline struct/array field of another object unless the whole-program may-be-interior analysis (analysis_pkgs of properties.cfg.json) says it may; dependency functions are assumed not to return such references into /repo objects and callers outside analysis_pkgs to pass none",
		"postconditions are partial-correctness statements: they hold for executions in which no run-time check of the function fails (safety.* obligations that are not in the baseline are open panics, not proved absent)",
		"a function of a dependency package that is modelled by ghost state and has no contract havocs that package's ghosts",
		"termination is not proved",
		"SMT solvers z3 5.1.0 / cvc5 1.0 / z3 4.8.12 are trusted")
	var mustFail []string
	if f := os.Getenv("GOVC_MUSTFAIL_FILE"); f != "" {
		if data, err := os.ReadFile(f); err == nil {
			for _, l := range strings.Split(strings.TrimSpace(string(data)), "\n") {
				if strings.HasPrefix(l, "MUSTFAIL") {
					mustFail = append(mustFail, l)
				}
			}
		}
	}
	assumptions := append([]string{}, pc.Assumed...)
	ev := map[string]interface{}{
		"property_id": prop, "tier": tier, "seed": seed, "level": "proof",
		"coverage": map[string]interface{}{
			"obligations": len(baseline), "discharged": discharged,
			"checker_cmd":              fmt.Sprintf("/verif/bin/govc check --property %s --tier %s", prop, tier),
			"trusted_base":             trusted,
			"samples":                  samples,
			"functions_under_contract": funcs,
			"by_solver":                bySolver,
			"by_kind":                  kinds,
			"paper_steps":              pc.Paper,
			"bounded_standins":         pc.Bounded,
			"undecided_not_claimed":    undecided,
			"generator_errors":         genErrs,
			"must_fail_corpus":         mustFail,
		},
		"assumptions": assumptions,
		"wall_s":      wall,
		"violations":  violations,
	}
	os.MkdirAll(filepath.Join(verifDir, "evidence"), 0o755)
	data, _ := json.MarshalIndent(ev, "", " ")
	os.WriteFile(filepath.Join(verifDir, "evidence", prop+".json"), append(data, '\n'), 0o644)
}

var _ = spec.ParseExpr

// dropLemmas removes the assertion of lemma `label` and of every lemma after
// it from the prelude (a lemma may use only earlier lemmas).
func dropLemmas(prelude, label string) string {
	var b strings.Builder
	drop := false
	for _, line := range strings.Split(prelude, "\n") {
		if strings.HasSuffix(line, "; lemma "+label) {
			drop = true
		}
		if drop && strings.Contains(line, ") ; lemma ") {
			continue
		}
		b.WriteString(line + "\n")
	}
	return b.String()
}

func clauseHasProp(c *spec.FuncContract, prop string) bool {
	for _, l := range [][]*spec.Clause{c.Ensures, c.Guarantees, c.Invs} {
		for _, cl := range l {
			if hasProp(cl.Props, prop) {
				return true
			}
		}
	}
	return false
}

func unionPkgs(a, b []string) []string {
	seen := map[string]bool{}
	var out []string
	for _, l := range [][]string{a, b} {
		for _, p := range l {
			if !seen[p] {
				seen[p] = true
				out = append(out, p)
			}
		}
	}
	return out
}

func cmdModset(args []string) int {
	fs := flag.NewFlagSet("modset", flag.ExitOnError)
	prop := fs.String("property", "", "property id (selects the packages)")
	fn := fs.String("func", "", "substring of the function key")
	fs.Parse(args)
	cfg, err := loadConfig()
	if err != nil {
		fmt.Fprintln(os.Stderr, "ERROR", err)
		return 2
	}
	pc := cfg.Properties[*prop]
	prog, err := vc.Load(repoDir, unionPkgs(pc.Packages, cfg.AnalysisPkgs), filepath.Join(verifDir, "contracts/external"))
	if err != nil {
		fmt.Fprintln(os.Stderr, "ERROR", err)
		return 2
	}
	for _, d := range cfg.AnalysisPkgs {
		prog.BuildPkg(d)
	}
	u := vc.NewUniverse()
	if *fn == "taint" {
		for _, l := range prog.TaintReport(u) {
			fmt.Println(l)
		}
		return 0
	}
	for _, d := range append(append([]string{}, cfg.BuildDeps...), pc.BuildDeps...) {
		prog.BuildPkg(d)
	}
	prog.ExpandAutoRules(u)
	for k, c := range prog.Specs.Contracts {
		if !strings.Contains(k, *fn) {
			continue
		}
		f := prog.LookupFunc(c)
		if f == nil || len(f.Blocks) == 0 {
			continue
		}
		m, all := prog.ModSet(u, f)
		var ks []string
		for x := range m {
			ks = append(ks, x)
		}
		sort.Strings(ks)
		fmt.Printf("%s all=%v\n  %s\n", k, all, strings.Join(ks, "\n  "))
	}
	return 0
}
