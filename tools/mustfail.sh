#!/bin/bash
# Must-fail corpus: applies every seeded change under /verif/seeded/<prop>/ to a scratch copy of /repo (outside /repo and
# /verif, removed afterwards) and runs the property's quick check against the copy. Prints one line per seed:
#   MUSTFAIL ok <prop>/<name>  (check reported a violation)   |   MUSTFAIL MISSED <prop>/<name>
# Exit status is always 0: a missed seed is information about coverage, not a violation of the property on /repo.
# usage: mustfail.sh [<prop>]
set -u
export GOFLAGS=-mod=mod GOPROXY=off GOSUMDB=off GOTOOLCHAIN=local
only=${1:-}
scratch=$(mktemp -d "${TMPDIR:-/tmp}/govc-mustfail-XXXXXX")
trap 'rm -rf "$scratch"' EXIT
for d in /verif/seeded/*/*/; do
  prop=$(basename "$(dirname "$d")"); name=$(basename "$d")
  [ -n "$only" ] && [ "$only" != "$prop" ] && continue
  [ -f "$d/patch.diff" ] || continue
  rm -rf "$scratch/repo"; mkdir -p "$scratch/repo"
  (cd /repo && git ls-files -z | xargs -0 cp --parents -t "$scratch/repo") 2>/dev/null
  cp /repo/go.sum "$scratch/repo/" 2>/dev/null
  if ! (cd "$scratch/repo" && patch -p1 -s < "$d/patch.diff" >/dev/null 2>&1); then echo "MUSTFAIL skipped $prop/$name (patch does not apply to the current tree)"; continue; fi
  out=$(REPO_DIR="$scratch/repo" VERIF_DIR=/verif GOVC_NO_EVIDENCE=1 /verif/bin/govc check --property "$prop" --tier quick 2>/dev/null)
  if echo "$out" | grep -q '^VIOLATION'; then echo "MUSTFAIL ok $prop/$name: $(echo "$out" | grep -c '^VIOLATION') obligations fail"; else echo "MUSTFAIL MISSED $prop/$name"; fi
done
exit 0
