package vc

import (
	"fmt"
	"sort"
	"strings"

	"govc/internal/spec"
)

// specGen returns a generator used only to evaluate state-free contract
// expressions (spec function bodies, axioms, lemmas).
func specGen(p *Program, u *Universe) *Gen {
	g := &Gen{prog: p, u: u, name: "spec",
		shared: &shared{declared: map[string]bool{}, ordinals: map[string]int{}, assumed: map[string]bool{},
			inlined: map[string]bool{}, usedSpecFuncs: map[string]bool{}, uncontracted: map[string]bool{}, external: map[string]bool{}, usedClauses: map[string]bool{}},
		params: map[string]TV{}}
	u.compSort[TopKey] = "Int"
	g.entry = g.baseState()
	return g
}

func (g *Gen) specEnv(pkg string) *Env {
	return &Env{g: g, vars: map[string]TV{}, cur: g.entry, old: g.entry, callee: true, pkg: pkg}
}

// SpecPrelude renders spec functions and axioms. It must be called before
// Universe.Prelude (it may register struct sorts) and its text placed after.
func SpecPrelude(p *Program, u *Universe) (text string, axiomNames []string, err error) {
	g := specGen(p, u)
	defer func() {
		if r := recover(); r != nil {
			if ge, ok := r.(genError); ok {
				err = fmt.Errorf("%s", ge.msg)
				return
			}
			panic(r)
		}
	}()
	var b strings.Builder
	b.WriteString("(declare-fun iface.eq (Iface Iface) Bool)\n")
	b.WriteString("(assert (forall ((a Iface)) (! (iface.eq a a) :pattern ((iface.eq a a)))))\n")
	b.WriteString("(assert (forall ((a Iface) (b Iface)) (! (=> (iface.eq a b) (= (i.typ a) (i.typ b))) :pattern ((iface.eq a b)))))\n")
	db := p.Specs
	pkgOf := map[string]string{}
	for _, f := range db.Files {
		for _, sf := range f.Funcs {
			pkgOf[sf.Name] = f.Pkg
		}
	}
	for _, name := range db.FuncOrder {
		sf := db.Funcs[name]
		if sf.Macro {
			continue
		}
		env := g.specEnv(pkgOf[name])
		env.src = sf.Src
		var ps, pdecl []string
		for _, prm := range sf.Params {
			srt, gt := env.sortName(prm.Sort)
			ps = append(ps, srt)
			pdecl = append(pdecl, fmt.Sprintf("(x!%s %s)", prm.Name, srt))
			env.vars[prm.Name] = TV{"x!" + prm.Name, srt, gt}
		}
		rs, _ := env.sortName(sf.Result)
		if sf.Body == nil {
			fmt.Fprintf(&b, "(declare-fun f.%s (%s) %s)\n", name, strings.Join(ps, " "), rs)
			continue
		}
		body := env.materialize(env.eval(sf.Body))
		if body.Sort != rs {
			return "", nil, fmt.Errorf("%s: body of %s has sort %s, declared %s", sf.Src, name, body.Sort, rs)
		}
		if sf.Opaque {
			fmt.Fprintf(&b, "(declare-fun f.%s (%s) %s)\n", name, strings.Join(ps, " "), rs)
			u.RelaxDef[fmt.Sprintf("(declare-fun f.%s (%s) %s)", name, strings.Join(ps, " "), rs)] =
				fmt.Sprintf("(define-fun f.%s (%s) %s %s)", name, strings.Join(pdecl, " "), rs, body.T)
			var args []string
			for _, prm := range sf.Params {
				args = append(args, "x!"+prm.Name)
			}
			app := "(f." + name + " " + strings.Join(args, " ") + ")"
			if len(args) == 0 {
				app = "f." + name
				u.Reveal[name] = fmt.Sprintf("(assert (= %s %s))\n", app, body.T)
			} else {
				u.Reveal[name] = fmt.Sprintf("(assert (forall (%s) (! (= %s %s) :pattern (%s))))\n", strings.Join(pdecl, " "), app, body.T, app)
			}
			continue
		}
		if sf.Axiomatic {
			var args []string
			for _, prm := range sf.Params {
				args = append(args, "x!"+prm.Name)
			}
			app := "(f." + name + " " + strings.Join(args, " ") + ")"
			fmt.Fprintf(&b, "(declare-fun f.%s (%s) %s)\n", name, strings.Join(ps, " "), rs)
			u.RelaxDef[fmt.Sprintf("(declare-fun f.%s (%s) %s)", name, strings.Join(ps, " "), rs)] =
				fmt.Sprintf("(define-fun f.%s (%s) %s %s)", name, strings.Join(pdecl, " "), rs, body.T)
			fmt.Fprintf(&b, "(assert (forall (%s) (! (= %s %s) :pattern (%s))))\n", strings.Join(pdecl, " "), app, body.T, app)
			continue
		}
		kw := "define-fun"
		if strings.Contains(body.T, "(f."+name+" ") {
			kw = "define-fun-rec"
		}
		fmt.Fprintf(&b, "(%s f.%s (%s) %s %s)\n", kw, name, strings.Join(pdecl, " "), rs, body.T)
	}
	for _, ax := range db.Axioms {
		env := g.specEnv(db.ClausePkg[ax])
		t := g.evalBool(env, ax.Expr, ax.Src)
		fmt.Fprintf(&b, "(assert %s) ; axiom %s\n", t, ax.Label)
		axiomNames = append(axiomNames, ax.Label)
	}
	// lemmas are proved separately on every run (LemmaObligations); for the
	// obligations of functions they are available as facts
	for _, l := range db.Lemmas {
		env := g.specEnv(db.ClausePkg[l])
		t := g.evalBool(env, l.Expr, l.Src)
		fmt.Fprintf(&b, "(assert %s) ; lemma %s\n", t, l.Label)
	}
	// declarations made while evaluating (e.g. constant globals)
	var pre strings.Builder
	for _, d := range g.decls {
		pre.WriteString(d + "\n")
	}
	for n := range g.declared {
		u.preDeclared[n] = true
	}
	pre.WriteString(strings.Join(g.asserts, "\n") + "\n")
	sort.Strings(axiomNames)
	return pre.String() + b.String(), axiomNames, nil
}

// RelaxPrelude drops quantified assertions from a prelude and interprets the
// helper function loc directly, for quantifier-free candidate-model queries.
func RelaxPrelude(prelude string, defs map[string]string) string {
	var b strings.Builder
	for _, line := range strings.Split(prelude, "\n") {
		if d, ok := defs[line]; ok {
			b.WriteString(d + "\n")
			continue
		}
		if strings.HasPrefix(line, "(declare-fun loc ") {
			b.WriteString("(define-fun loc ((o Int) (i Int)) Int (+ o i))\n")
			continue
		}
		if strings.HasPrefix(line, "(assert ") && (strings.Contains(line, "(forall ") || strings.Contains(line, "(exists ")) {
			continue
		}
		b.WriteString(line + "\n")
	}
	return b.String()
}

// LemmaObligations turns every lemma into an obligation.
func LemmaObligations(p *Program, u *Universe) (obls []*Obligation, err error) {
	g := specGen(p, u)
	defer func() {
		if r := recover(); r != nil {
			if ge, ok := r.(genError); ok {
				err = fmt.Errorf("%s", ge.msg)
				return
			}
			panic(r)
		}
	}()
	for _, l := range p.Specs.Lemmas {
		env := g.specEnv(p.Specs.ClausePkg[l])
		goalExpr := l.Expr
		if l.InductVar != "" {
			step, err := spec.InductionStep(l)
			if err != nil {
				return nil, err
			}
			goalExpr = step
		}
		t := g.evalBool(env, goalExpr, l.Src)
		var b strings.Builder
		for _, d := range g.decls {
			b.WriteString(d + "\n")
		}
		for _, a := range g.asserts {
			b.WriteString(a + "\n")
		}
		fmt.Fprintf(&b, "(assert (not %s))\n", t)
		pk := p.Specs.ClausePkg[l]
		pk = strings.TrimPrefix(pk, "github.com/btcsuite/btcwallet/")
		pk = strings.TrimPrefix(pk, "github.com/btcsuite/")
		obls = append(obls, &Obligation{Name: pk + "#lemma." + l.Label, Func: pk, Kind: "lemma", Label: l.Label,
			Src: l.Src, Script: b.String(), Goal: t, Props: l.Props})
	}
	return obls, nil
}

var _ = spec.ParseExpr
