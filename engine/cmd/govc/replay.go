package main

import (
	"encoding/json"
	"fmt"
	"os"
	"os/exec"
	"path/filepath"
	"regexp"
	"strings"
	"time"

	"govc/internal/smt"
	"govc/internal/vc"
)

// pkgDir maps an import path of /repo to (module dir, package dir).
func pkgDir(path string) (string, string) {
	mods := vc.RepoModules(repoDir)
	best := mods[0]
	for _, m := range mods {
		if (path == m.Path || strings.HasPrefix(path, m.Path+"/")) && len(m.Path) > len(best.Path) {
			best = m
		}
	}
	rel := strings.TrimPrefix(strings.TrimPrefix(path, best.Path), "/")
	return best.Dir, filepath.Join(best.Dir, rel)
}

var defineRe = regexp.MustCompile(`\(define-fun ([^\s()]+) \(\) `)

// allModelValues extracts every 0-ary constant of a model.
func allModelValues(model string) map[string]string {
	out := map[string]string{}
	for _, m := range defineRe.FindAllStringSubmatch(model, -1) {
		if v := modelValue(model, m[1]); v != "" {
			out[m[1]] = v
		}
	}
	return out
}

const replayHelper = `package %s

import (
	"encoding/json"
	"os"
	"strconv"
	"strings"
	"testing"
)

type govcModelT map[string]string

func govcModel(t *testing.T) govcModelT {
	data, err := os.ReadFile(os.Getenv("GOVC_MODEL"))
	if err != nil {
		t.Skipf("no model: %%v", err)
	}
	m := govcModelT{}
	if err := json.Unmarshal(data, &m); err != nil {
		t.Fatalf("bad model: %%v", err)
	}
	return m
}

func govcParseInt(s string) (int64, bool) {
	s = strings.TrimSpace(s)
	neg := false
	if strings.HasPrefix(s, "(- ") {
		neg = true
		s = strings.TrimSuffix(strings.TrimPrefix(s, "(- "), ")")
	}
	v, err := strconv.ParseInt(strings.TrimSpace(s), 10, 64)
	if err != nil {
		return 0, false
	}
	if neg {
		v = -v
	}
	return v, true
}

// Int returns the integer value of a model constant (def if absent).
func (m govcModelT) Int(name string, def int64) int64 {
	if v, ok := govcParseInt(m[name]); ok {
		return v
	}
	return def
}

func (m govcModelT) Bool(name string, def bool) bool {
	switch strings.TrimSpace(m[name]) {
	case "true":
		return true
	case "false":
		return false
	}
	return def
}

// Fields splits a constructor application "(mk.x a b (- 3))" into its arguments.
func (m govcModelT) Fields(name string) []string {
	s := strings.TrimSpace(m[name])
	if !strings.HasPrefix(s, "(") {
		return nil
	}
	s = s[1 : len(s)-1]
	var out []string
	depth, start := 0, 0
	for i := 0; i <= len(s); i++ {
		if i == len(s) || (s[i] == ' ' && depth == 0) {
			if i > start {
				out = append(out, s[start:i])
			}
			start = i + 1
			continue
		}
		if s[i] == '(' {
			depth++
		} else if s[i] == ')' {
			depth--
		}
	}
	if len(out) > 0 {
		out = out[1:]
	}
	return out
}

// SliceLen returns the length of a slice-valued model constant.
func (m govcModelT) SliceLen(name string, def int64) int64 {
	f := m.Fields(name)
	if len(f) == 4 {
		if v, ok := govcParseInt(f[2]); ok {
			return v
		}
	}
	return def
}
`

// tryReplay replays a counterexample on the real code; returns true when the
// real code exhibits the failure (the test printed REPLAY-VIOLATION).
func tryReplay(prop string, o *vc.Obligation, r smt.Result, info map[string]interface{}) bool {
	if o.Replay == "" || o.PkgPath == "" {
		info["replay"] = "no replay template for this contract"
		return false
	}
	parts := strings.Fields(o.Replay)
	tmpl := filepath.Join(verifDir, "replay_templates", parts[0])
	src, err := os.ReadFile(tmpl)
	if err != nil {
		info["replay"] = "replay template missing: " + err.Error()
		return false
	}
	modDir, dir := pkgDir(o.PkgPath)
	_ = modDir
	work, err := os.MkdirTemp("", "govc-replay-")
	if err != nil {
		info["replay"] = err.Error()
		return false
	}
	defer os.RemoveAll(work)
	model := allModelValues(r.Model)
	model["$obligation"] = o.Name
	model["$label"] = o.Label
	mdata, _ := json.MarshalIndent(model, "", " ")
	mpath := filepath.Join(work, "model.json")
	os.WriteFile(mpath, mdata, 0o644)
	// package name from the template's package clause
	pkgName := ""
	for _, line := range strings.Split(string(src), "\n") {
		if strings.HasPrefix(line, "package ") {
			pkgName = strings.TrimSpace(strings.TrimPrefix(line, "package "))
			break
		}
	}
	helper := filepath.Join(work, "helper_test.go")
	os.WriteFile(helper, []byte(fmt.Sprintf(replayHelper, pkgName)), 0o644)
	tfile := filepath.Join(work, "replay_test.go")
	os.WriteFile(tfile, src, 0o644)
	ov := map[string]map[string]string{"Replace": {
		filepath.Join(dir, "zz_govc_replay_test.go"):     tfile,
		filepath.Join(dir, "zz_govc_replayhelp_test.go"): helper,
	}}
	ovData, _ := json.Marshal(ov)
	ovPath := filepath.Join(work, "overlay.json")
	os.WriteFile(ovPath, ovData, 0o644)
	cmd := exec.Command("go", "test", "-tags", "verif", "-overlay", ovPath, "-vet=off", "-count=1", "-timeout", "60s",
		"-run", "^TestGovcReplay$", "-v", ".")
	cmd.Dir = dir
	cmd.Env = append(os.Environ(), "GOFLAGS=-mod=mod", "GOPROXY=off", "GOSUMDB=off", "GOTOOLCHAIN=local", "GOVC_MODEL="+mpath)
	done := make(chan struct{})
	var out []byte
	go func() { out, _ = cmd.CombinedOutput(); close(done) }()
	select {
	case <-done:
	case <-time.After(120 * time.Second):
		if cmd.Process != nil {
			cmd.Process.Kill()
		}
		<-done
	}
	text := string(out)
	info["replay_cmd"] = "go test -tags verif -overlay <ov> -vet=off -run ^TestGovcReplay$ . (in " + dir + ", template " + parts[0] + ")"
	info["replay_model"] = model
	info["replay_output"] = firstN(text, 4000)
	if r.Candidate {
		info["model_origin"] = "quantifier-free relaxation of the obligation (axioms and quantified preconditions dropped); confirmed or rejected by the replay"
	}
	return strings.Contains(text, "REPLAY-VIOLATION")
}
