package vc

import (
	"fmt"
	"go/types"
	"strings"

	"govc/internal/spec"

	"golang.org/x/tools/go/ssa"
)

// bindResults binds the SSA value of a call to result terms.
func (g *Gen) bindResults(v ssa.Value, res []Term) {
	if v == nil {
		return
	}
	sig := v.Type()
	if tup, ok := sig.(*types.Tuple); ok {
		if tup.Len() != len(res) {
			g.fail("result arity mismatch for %s", v.Name())
		}
		g.tuples[v] = res
		return
	}
	if len(res) == 1 {
		g.vals[v] = res[0]
	}
}

func resultTypes(sig *types.Signature) []types.Type {
	var out []types.Type
	for i := 0; i < sig.Results().Len(); i++ {
		out = append(out, sig.Results().At(i).Type())
	}
	return out
}

// havocResults makes fresh well-typed result constants.
func (g *Gen) havocResults(name string, sig *types.Signature, st *State) []Term {
	var res []Term
	for _, t := range resultTypes(sig) {
		r := g.fresh("r!"+sanitize(name), g.u.SortOf(t))
		g.assert(g.u.rangeFact(r, t, g.top(st)))
		res = append(res, r)
	}
	return res
}

// plainResults: the results of a call to fn are not interior references,
// unless the taint analysis says fn may return one (fn == nil: a dependency
// or dynamic callee — by assumption its results are not interior references
// into /repo objects, unless some in-repo method of that name may return one).
func (g *Gen) plainResults(res []Term, sig *types.Signature, fn *ssa.Function, method string) {
	t := g.prog.interiorTaint(g.u)
	if fn != nil && t.rets[fn] {
		return
	}
	if fn == nil && method != "" {
		for f, bad := range t.rets {
			if bad && f.Name() == method {
				return
			}
		}
	}
	for i, rt := range resultTypes(sig) {
		if i < len(res) {
			if f := g.u.plainFact(res[i], rt); f != "" {
				g.assert(f)
			}
		}
	}
}

// call handles a Call (or deferred call executed at RunDefers).
func (g *Gen) call(v ssa.Value, c *ssa.CallCommon, st *State) *State {
	// interior pointers to by-value aggregates passed as arguments are passed
	// as read-only copies (abstraction, reported)
	for _, a := range c.Args {
		if pl := g.places[a]; pl != nil && !pl.Struct {
			// (a fresh snapshot for every call: an earlier copy may have been
			// havocked by a loop or call in between)
			et := deref(a.Type())
			if et == nil || !isAggregate(et) {
				continue
			}
			var r Term
			r, st = g.allocRef(st)
			cp := g.placeOfRef(r, et)
			st = g.store(st, cp, g.load(st, pl))
			g.vals[a] = r
			g.abstractedOnce("interior-pointer-arg: a pointer to an aggregate stored by value inside a slice element is passed as a read-only copy")
		}
	}
	var args []ssa.Value
	if c.IsInvoke() {
		// calling a method on a nil interface panics
		if in, ok := v.(ssa.Instruction); ok && v != nil {
			g.safety("nilcall", in, fmt.Sprintf("(not (= %s nil.iface))", g.val(c.Value)))
		} else if g.curInstr != nil {
			g.safety("nilcall", g.curInstr, fmt.Sprintf("(not (= %s nil.iface))", g.val(c.Value)))
		}
		args = append([]ssa.Value{c.Value}, c.Args...)
		st = g.bumpCounters(ifaceKey(c.Method), st)
		con := g.prog.IfaceContract(c.Method)
		name := "invoke " + c.Value.Type().String() + "." + c.Method.Name()
		if con == nil {
			return g.unknownCall(v, name, c.Signature(), args, st, nil)
		}
		return g.applyContract(v, con, c.Signature(), args, st, name)
	}
	args = c.Args
	switch fn := c.Value.(type) {
	case *ssa.Builtin:
		return g.builtin(v, fn, args, st)
	case *ssa.Function:
		return g.staticCall(v, fn, args, nil, st)
	case *ssa.MakeClosure:
		return g.staticCall(v, fn.Fn.(*ssa.Function), args, fn.Bindings, st)
	}
	if cl, ok := g.clos[c.Value]; ok {
		return g.staticCall(v, cl.Fn.(*ssa.Function), args, cl.Bindings, st)
	}
	// a local func variable assigned one of several closure literals (phi of
	// MakeClosure): case split on the edge the phi took
	if phi, ok := c.Value.(*ssa.Phi); ok {
		if st2, ok := g.phiClosureCall(v, phi, args, st); ok {
			return st2
		}
	}
	// dynamic call through a function value: parameter contract?
	if pc := g.funcParamContract(c.Value); pc != nil {
		argTV := make([]TV, len(args))
		for i, a := range args {
			argTV[i] = TV{g.val(a), g.u.SortOf(a.Type()), a.Type()}
		}
		extra := map[string]TV{}
		switch x := c.Value.(type) {
		case *ssa.Field:
			extra["self"] = TV{g.val(x.X), g.u.SortOf(x.X.Type()), x.X.Type()}
		case *ssa.UnOp:
			if fa, ok := x.X.(*ssa.FieldAddr); ok && g.places[fa.X] == nil {
				extra["self"] = TV{g.val(fa.X), "Int", fa.X.Type()}
			}
		}
		return g.applyContractTV(v, pc, c.Signature(), argTV, extra, st, strings.TrimPrefix(pc.Name, "field "), args)
	}
	return g.unknownCall(v, "dynamic "+c.Value.Name(), c.Signature(), args, st, nil)
}

// phiClosureCall: call of a phi whose incoming values are all closure literals.
// Each alternative is executed (contract or inlining) under the condition that
// control entered the phi's block through the corresponding edge; results and
// states are joined on those conditions.
func (g *Gen) phiClosureCall(v ssa.Value, phi *ssa.Phi, args []ssa.Value, st *State) (*State, bool) {
	b := phi.Block()
	if g.loops[b] != nil || g.depth > 0 {
		return nil, false
	}
	var mcs []*ssa.MakeClosure
	for i, e := range phi.Edges {
		mc, ok := e.(*ssa.MakeClosure)
		if !ok {
			if mc = g.clos[e]; mc == nil {
				return nil, false
			}
		}
		if _, reached := g.reach[b.Preds[i]]; !reached {
			return nil, false
		}
		mcs = append(mcs, mc)
	}
	saved := g.reach[g.curBlock]
	var conds []Term
	var states []*State
	var single []Term
	var tuples [][]Term
	for i, mc := range mcs {
		cond := fmt.Sprintf("(and %s %s)", saved, g.edge(b.Preds[i], b))
		g.reach[g.curBlock] = cond
		delete(g.vals, v)
		delete(g.tuples, v)
		si := g.staticCall(v, mc.Fn.(*ssa.Function), args, mc.Bindings, st)
		g.reach[g.curBlock] = saved
		if si == nil {
			return nil, false
		}
		conds = append(conds, cond)
		states = append(states, si)
		if v != nil {
			single = append(single, g.vals[v])
			tuples = append(tuples, g.tuples[v])
		}
	}
	if v != nil {
		delete(g.vals, v)
		delete(g.tuples, v)
		if tuples[0] != nil {
			n := len(tuples[0])
			res := make([]Term, n)
			tup := v.Type().(*types.Tuple)
			for k := 0; k < n; k++ {
				res[k] = g.fresh("phicall", g.u.SortOf(tup.At(k).Type()))
				for i := range mcs {
					g.assert(fmt.Sprintf("(=> %s (= %s %s))", conds[i], res[k], tuples[i][k]))
				}
			}
			g.tuples[v] = res
		} else if single[0] != "" {
			r := g.fresh("phicall", g.u.SortOf(v.Type()))
			for i := range mcs {
				g.assert(fmt.Sprintf("(=> %s (= %s %s))", conds[i], r, single[i]))
			}
			g.vals[v] = r
		}
	}
	return g.joinStates(states, conds), true
}

// funcParamContract: contract named "<Func>@<param>" describes a function-typed parameter.
func (g *Gen) funcParamContract(v ssa.Value) *spec.FuncContract {
	name := ""
	switch x := v.(type) {
	case *ssa.Parameter:
		name = x.Name()
	case *ssa.UnOp:
		// load of a field holding a func: <Type>.<field>
		if fa, ok := x.X.(*ssa.FieldAddr); ok {
			st := deref(fa.X.Type())
			if n := namedOf(st); n != nil {
				si := g.u.StructOf(st)
				key := n.Obj().Pkg().Path() + "::field " + n.Obj().Name() + "." + si.Fields[fa.Field].Name
				return g.prog.Specs.Contracts[key]
			}
		}
		if fv, ok := x.X.(*ssa.FreeVar); ok {
			name = fv.Name()
		}
	case *ssa.Field:
		if n := namedOf(x.X.Type()); n != nil {
			si := g.u.StructOf(x.X.Type())
			key := n.Obj().Pkg().Path() + "::field " + n.Obj().Name() + "." + si.Fields[x.Field].Name
			return g.prog.Specs.Contracts[key]
		}
	}
	if name == "" {
		return nil
	}
	f := g.rootFn()
	return g.prog.Specs.Contracts[FuncKey(f)+"@"+name]
}

func (g *Gen) rootFn() *ssa.Function {
	f := g.fn
	return f
}

func (g *Gen) staticCall(v ssa.Value, fn *ssa.Function, args []ssa.Value, bindings []ssa.Value, st *State) *State {
	return g.bumpOkCounters(FuncKey(fn), v, g.staticCall0(v, fn, args, bindings, st))
}

func (g *Gen) staticCall0(v ssa.Value, fn *ssa.Function, args []ssa.Value, bindings []ssa.Value, st *State) *State {
	if st2, ok := g.modelCall(v, fn, args, st); ok {
		return st2
	}
	st = g.bumpCounters(FuncKey(fn), st)
	if st2, ok := g.updateCallThrough(v, fn, args, st); ok {
		return st2
	}
	if st2, ok := g.errorsIsConst(v, fn, args, st); ok {
		return st2
	}
	con := g.prog.ContractFor(fn)
	if con != nil && !con.Inline {
		if len(bindings) > 0 {
			// closure with its own contract: bindings are the captured cells; the
			// contract refers to them by free-variable name
			return g.applyContractFV(v, con, fn, args, bindings, st)
		}
		return g.applyContract(v, con, fn.Signature, args, st, displayName(fn))
	}
	if g.canInline(fn) {
		return g.inline(v, fn, args, bindings, st)
	}
	return g.unknownCall(v, displayName(fn), fn.Signature, args, st, fn)
}

func (g *Gen) canInline(fn *ssa.Function) bool {
	if len(fn.Blocks) == 0 || g.depth >= 4 {
		return false
	}
	if fn.Package() == nil || !g.prog.InRepo(fn.Package().Pkg.Path()) {
		// allow tiny pure helpers from dependencies whose body is built
		if fn.Package() == nil || !g.prog.built[fn.Package().Pkg.Path()] {
			return false
		}
	}
	for _, f := range g.inlineStack {
		if f == fn {
			return false
		}
	}
	n := 0
	for _, b := range fn.Blocks {
		for _, in := range b.Instrs {
			if _, dbg := in.(*ssa.DebugRef); !dbg {
				n++
			}
		}
		for _, s := range b.Succs {
			if s.Dominates(b) {
				return false // loops are never inlined
			}
		}
		for _, in := range b.Instrs {
			switch in.(type) {
			case *ssa.Defer, *ssa.Go, *ssa.Select, *ssa.Send, *ssa.MakeChan:
				return false
			}
		}
	}
	if fn.Recover != nil {
		return false
	}
	return n <= 80
}

// inline symbolically executes a small loop-free callee in place.
func (g *Gen) inline(v ssa.Value, fn *ssa.Function, args []ssa.Value, bindings []ssa.Value, st *State) *State {
	g.inlined[FuncKey(fn)] = true
	g.instN++
	c := &Gen{prog: g.prog, u: g.u, fn: fn, con: &spec.FuncContract{}, name: g.name, shared: g.shared,
		tuples: map[ssa.Value][]Term{}, strFrom: g.strFrom, rangeSt: map[ssa.Value]*rangeState{},
		vals: map[ssa.Value]Term{}, places: map[ssa.Value]*Place{}, clos: map[ssa.Value]*ssa.MakeClosure{},
		reach: map[*ssa.BasicBlock]Term{}, exit: map[*ssa.BasicBlock]*State{},
		edgeCond: map[[2]*ssa.BasicBlock]Term{}, loops: map[*ssa.BasicBlock]*loopInfo{},
		backEdge: map[[2]*ssa.BasicBlock]bool{}, params: map[string]TV{},
		depth: g.depth + 1, instID: g.instN, entry: g.entry, inlineEntry: st,
		inlineReach: g.reach[g.curBlock], inlineStack: append(append([]*ssa.Function(nil), g.inlineStack...), fn),
		root: g.rootGen()}
	fr := &inlineFrame{}
	c.inlineFrames = []*inlineFrame{fr}
	for i, p := range fn.Params {
		if pl := g.places[args[i]]; pl != nil {
			if _, copied := g.vals[args[i]]; !copied {
				c.places[p] = pl
				continue
			}
		}
		c.vals[p] = g.val(args[i])
		if cl, ok := g.clos[args[i]]; ok {
			c.clos[p] = cl
		}
	}
	for i, fv := range fn.FreeVars {
		if pl := g.places[bindings[i]]; pl != nil {
			c.places[fv] = pl
			continue
		}
		c.vals[fv] = g.val(bindings[i])
	}
	for _, b := range c.topoOrder() {
		c.block(b)
	}
	g.panics = append(g.panics, c.panics...)
	if len(fr.rets) == 0 {
		// callee never returns: the rest of the block is unreachable
		g.assert(fmt.Sprintf("(not %s)", g.reach[g.curBlock]))
		res := g.havocResults(fn.Name(), fn.Signature, st)
		g.bindResults(v, res)
		return st
	}
	var conds []Term
	var states []*State
	for _, r := range fr.rets {
		conds = append(conds, r.cond)
		states = append(states, r.st)
	}
	var res []Term
	for i, t := range resultTypes(fn.Signature) {
		if len(fr.rets) == 1 {
			res = append(res, fr.rets[0].vals[i])
			continue
		}
		r := g.fresh("r!"+sanitize(fn.Name()), g.u.SortOf(t))
		for _, rt := range fr.rets {
			g.assert(fmt.Sprintf("(=> %s (= %s %s))", rt.cond, r, rt.vals[i]))
		}
		res = append(res, r)
	}
	g.bindResults(v, res)
	// closures returned by inlined callee keep their identity
	return g.joinStates(states, conds)
}

func (g *Gen) rootGen() *Gen {
	if g.root != nil {
		return g.root
	}
	return g
}

// applyContract uses a callee contract at a call site.
func (g *Gen) applyContract(v ssa.Value, con *spec.FuncContract, sig *types.Signature, args []ssa.Value, st *State, name string) *State {
	argTV := make([]TV, len(args))
	for i, a := range args {
		if _, copied := g.vals[a]; g.places[a] != nil && copied {
			argTV[i] = TV{g.val(a), g.u.SortOf(a.Type()), a.Type()}
			continue
		}
		if pl := g.places[a]; pl != nil {
			// interior pointer passed to a contracted callee: only allowed when
			// the contract does not mention the parameter (name "_")
			if i < len(con.Params) && con.Params[i] != "_" {
				g.fail("interior pointer passed as %s to contracted %s", con.Params[i], name)
			}
			argTV[i] = TV{"0", "Int", a.Type()}
			continue
		}
		argTV[i] = TV{g.val(a), g.u.SortOf(a.Type()), a.Type()}
	}
	return g.applyContractTV(v, con, sig, argTV, nil, st, name, args)
}

func (g *Gen) applyContractFV(v ssa.Value, con *spec.FuncContract, fn *ssa.Function, args []ssa.Value, bindings []ssa.Value, st *State) *State {
	argTV := make([]TV, len(args))
	for i, a := range args {
		argTV[i] = TV{g.val(a), g.u.SortOf(a.Type()), a.Type()}
	}
	fv := map[string]TV{}
	for i, f := range fn.FreeVars {
		et := deref(f.Type())
		if pl := g.places[bindings[i]]; pl != nil {
			fv[f.Name()] = TV{g.load(st, pl), g.u.SortOf(et), et}
			continue
		}
		ref := g.val(bindings[i])
		fv["&"+f.Name()] = TV{ref, "Int", f.Type()}
	}
	return g.applyContractTV(v, con, fn.Signature, argTV, fv, st, displayName(fn), args)
}

func (g *Gen) applyContractTV(v ssa.Value, con *spec.FuncContract, sig *types.Signature, args []TV, extra map[string]TV, st *State, name string, ssaArgs []ssa.Value) *State {
	post, _ := g.applyContractRes(v, con, sig, args, extra, st, name, ssaArgs)
	return post
}

// applyContractRes is applyContractTV that also returns the result terms.
func (g *Gen) applyContractRes(v ssa.Value, con *spec.FuncContract, sig *types.Signature, args []TV, extra map[string]TV, st *State, name string, ssaArgs []ssa.Value) (*State, []Term) {
	g.assumed[con.Pkg+"::"+con.Name] = true
	if len(con.Params) != len(args) {
		g.fail("contract of %s lists %d parameters, call has %d", name, len(con.Params), len(args))
	}
	mkEnv := func(cur, old *State) *Env {
		env := &Env{g: g, vars: map[string]TV{}, cur: cur, old: old, callee: true, pkg: con.Pkg}
		for i, p := range con.Params {
			if p != "_" {
				env.vars[p] = args[i]
			}
		}
		for k, tv := range extra {
			if strings.HasPrefix(k, "&") {
				// captured cell: value read in the env's current state
				et := deref(tv.Go)
				pl := g.placeOfRef(tv.T, et)
				if pl.Struct || isAggregate(et) {
					env.vars[k[1:]] = TV{tv.T, atRefSort, et}
				} else {
					env.vars[k[1:]] = TV{g.load(cur, pl), g.u.SortOf(et), et}
				}
				continue
			}
			env.vars[k] = tv
		}
		return env
	}
	// preconditions
	pre := mkEnv(st, st)
	short := name
	if i := strings.LastIndex(short, "/"); i >= 0 {
		short = short[i+1:]
	}
	preUnproved := false
	if g.rootGen().umode && len(con.Requires) > 0 {
		// unconditional pass: callee preconditions are neither checked (that is
		// the conditional pass's obligation) nor relied upon — only the callee's
		// own unconditional guarantees are used
		preUnproved = true
	}
	for _, r := range con.Requires {
		if g.rootGen().umode {
			break
		}
		goal := g.evalBool(pre, r.Expr, r.Src)
		label := sanitize(short) + "." + r.Label
		if SkipClauses[g.rootGen().name+"#pre."+label] {
			// this precondition does not discharge on the unchanged tree: it is
			// still generated (and reported as not claimed), but nothing after
			// the call may rely on it or on the callee's postconditions
			g.rootGen().deferObl("pre", label, g.prefix(), fmt.Sprintf("(=> %s %s)", g.reach[g.curBlock], goal), r.Src)
			preUnproved = true
			continue
		}
		g.check("pre", label, g.reach[g.curBlock], goal, r.Src)
	}
	// frame
	post := st
	if !con.Pure {
		mods, all := g.contractMods(con, ssaArgs)
		if all {
			post = g.havocAll(st, "c")
		} else {
			post = g.havocSet(st, mods, "c")
			post = g.havocWritten(post, g.lastWritten)
			if !con.Trusted && !con.Iface && mods[lockGhostKey(g.u, g.prog)] {
				g.assumeLockFrame(st, post, g.lastLocks)
			}
		}
	}
	res := g.havocResults(short, sig, post)
	{
		var cfn *ssa.Function
		meth := ""
		if con.Iface {
			if i := strings.LastIndex(con.Name, "."); i >= 0 {
				meth = con.Name[i+1:]
			}
		} else if !strings.Contains(con.Name, "@") && !strings.HasPrefix(con.Name, "field ") {
			cfn = g.prog.LookupFunc(con)
		}
		if cfn != nil || meth != "" {
			g.plainResults(res, sig, cfn, meth)
		}
	}
	env := mkEnv(post, st)
	for i, r := range con.Results {
		if i < len(res) && r != "_" {
			rt := resultTypes(sig)[i]
			env.vars[r] = TV{res[i], g.u.SortOf(rt), rt}
		}
	}
	if len(res) == 1 {
		rt := resultTypes(sig)[0]
		env.vars["result"] = TV{res[0], g.u.SortOf(rt), rt}
	}
	if n := len(res); n > 0 {
		rt := resultTypes(sig)[n-1]
		if _, bound := env.vars["err"]; !bound && isErrorType(rt) {
			env.vars["err"] = TV{res[n-1], g.u.SortOf(rt), rt}
		}
	}
	for _, fr := range con.Fresh {
		if tv, ok := env.vars[fr]; ok {
			t := tv.T
			if tv.Sort == "Slice" {
				t = fmt.Sprintf("(s.base %s)", tv.T)
			}
			g.assert(fmt.Sprintf("(=> %s (> %s %s))", g.guarded(g.reach[g.curBlock]), t, g.top(st)))
		}
	}
	verified := !con.Trusted && !con.Iface && !strings.Contains(con.Name, "@") && !strings.HasPrefix(con.Name, "field ")
	for _, e := range con.Ensures {
		if preUnproved {
			break
		}
		if verified {
			// a clause of a verified callee is assumed only if it is itself
			// discharged (SkipClauses = clauses that are not)
			cn := name + "#post." + e.Label
			if SkipClauses[cn] {
				continue
			}
			g.usedClauses[cn] = true
		}
		t := g.evalBool(env, e.Expr, e.Src)
		g.assert(fmt.Sprintf("(=> %s %s)", g.guarded(g.reach[g.curBlock]), t))
	}
	for _, e := range con.Guarantees {
		// proved without the callee's preconditions: usable at every call
		if verified {
			cn := name + "#gpost." + e.Label
			if SkipClauses[cn] {
				continue
			}
			g.usedClauses[cn] = true
		}
		t := g.evalBool(env, e.Expr, e.Src)
		g.assert(fmt.Sprintf("(=> %s %s)", g.reach[g.curBlock], t))
	}
	for _, e := range con.Assumes {
		g.assumed[con.Pkg+"::"+con.Name+" (assumed clause "+e.Label+")"] = true
		t := g.evalBool(env, e.Expr, e.Src)
		g.assert(fmt.Sprintf("(=> %s %s)", g.reach[g.curBlock], t))
	}
	g.bindResults(v, res)
	return post, res
}

// contractMods: components to havoc at a call governed by contract con.
// Verified in-repo callees without an explicit frame use their computed effect
// summary; parameters they write through are resolved by the argument types.
func (g *Gen) contractMods(con *spec.FuncContract, args []ssa.Value) (map[string]bool, bool) {
	var fn *ssa.Function
	if !con.Iface && !strings.Contains(con.Name, "@") && !strings.HasPrefix(con.Name, "field ") {
		fn = g.prog.LookupFunc(con)
	}
	ce := g.prog.contractEffects(g.u, con, fn, args)
	m := copySet(ce.comps)
	m[TopKey] = true
	g.lastWritten = ce.written
	g.lastLocks = ce.locks
	return m, ce.all
}

// havocWritten havocs exactly the objects the written arguments point to.
func (g *Gen) havocWritten(st *State, written []ssa.Value) *State {
	for _, w := range written {
		st = g.havocObject(st, w)
	}
	return st
}

// havocObject: the callee may have written the object v points to (the
// struct/array/cell itself including inline aggregates, the backing row of a
// slice, the contents of a map) — nothing else.
func (g *Gen) havocObject(st *State, v ssa.Value) *State {
	if pl := g.places[v]; pl != nil {
		if _, copied := g.vals[v]; !copied {
			nv := g.fresh("hv", g.u.SortOf(pl.Type))
			g.assert(g.u.rangeFact(nv, pl.Type, g.top(st)))
			return g.store(st, pl, nv)
		}
	}
	switch t := types.Unalias(v.Type()).Underlying().(type) {
	case *types.Slice:
		k := g.u.ElemComp(t.Elem())
		row := g.fresh("hv.row", "(Array Int "+g.u.SortOf(t.Elem())+")")
		if f := g.u.rangeFact("(select "+row+" i!h)", t.Elem(), g.top(st)); f != "" {
			g.assert(fmt.Sprintf("(forall ((i!h Int)) (! %s :pattern ((select %s i!h))))", f, row))
		}
		s := g.val(v)
		cur := g.read(st, k)
		return g.update(st, k, fmt.Sprintf("(ite (= (s.base %s) 0) %s (store %s (s.base %s) %s))", s, cur, cur, s, row))
	case *types.Pointer:
		return g.havocAt(st, g.val(v), t.Elem())
	case *types.Map:
		md, mv := g.u.MapComps(t)
		r := g.val(v)
		d := g.fresh("hv.dom", "(Array "+g.u.SortOf(t.Key())+" Bool)")
		vv := g.fresh("hv.val", "(Array "+g.u.SortOf(t.Key())+" "+g.u.SortOf(t.Elem())+")")
		st = g.update(st, md, fmt.Sprintf("(store %s %s %s)", g.read(st, md), r, d))
		return g.update(st, mv, fmt.Sprintf("(store %s %s %s)", g.read(st, mv), r, vv))
	}
	return st
}

func (g *Gen) havocAt(st *State, r Term, t types.Type) *State {
	switch x := types.Unalias(t).Underlying().(type) {
	case *types.Struct:
		si := g.u.StructOf(t)
		for i, f := range si.Fields {
			switch ft := types.Unalias(f.Type).Underlying().(type) {
			case *types.Struct:
				st = g.havocAt(st, fldRef(r, i), f.Type)
			case *types.Array:
				_ = ft
				st = g.havocAt(st, fldRef(r, i), f.Type)
			default:
				k := g.u.FieldComp(t, i)
				nv := g.fresh("hv", f.Sort)
				g.assert(g.u.rangeFact(nv, f.Type, g.top(st)))
				st = g.update(st, k, fmt.Sprintf("(store %s %s %s)", g.read(st, k), r, nv))
			}
		}
		return st
	case *types.Array:
		k := g.u.ElemComp(x.Elem())
		row := g.fresh("hv.row", "(Array Int "+g.u.SortOf(x.Elem())+")")
		if f := g.u.rangeFact("(select "+row+" i!h)", x.Elem(), g.top(st)); f != "" {
			g.assert(fmt.Sprintf("(forall ((i!h Int)) (! %s :pattern ((select %s i!h))))", f, row))
		}
		return g.update(st, k, fmt.Sprintf("(store %s %s %s)", g.read(st, k), r, row))
	}
	k := g.u.CellComp(t)
	nv := g.fresh("hv", g.u.SortOf(t))
	g.assert(g.u.rangeFact(nv, t, g.top(st)))
	return g.update(st, k, fmt.Sprintf("(store %s %s %s)", g.read(st, k), r, nv))
}

func (g *Gen) heapRefKey(env *Env, x *spec.HeapRef) string {
	switch x.Kind {
	case "G":
		return g.u.GhostComp(x.Name, g.prog.Specs.Ghosts[x.Name])
	case "M", "C":
		_, gt := env.sortName(x.Name)
		if gt == nil {
			g.fail("@%s(%s): not a Go type", x.Kind, x.Name)
		}
		if x.Kind == "M" {
			return g.u.ElemComp(gt)
		}
		return g.u.CellComp(gt)
	case "H":
		i := strings.LastIndex(x.Name, ".")
		t := env.lookupType(x.Name[:i])
		if t == nil {
			g.fail("@H: unknown type %s", x.Name[:i])
		}
		si := g.u.StructOf(t)
		for fi, f := range si.Fields {
			if f.Name == x.Name[i+1:] {
				return g.u.FieldComp(t, fi)
			}
		}
	}
	g.fail("bad heap ref %s", x)
	return ""
}

// unknownCall: no contract, not inlinable. Results are havocked. Effects:
// in-repo callee with a body -> its computed mod-set; dependency without
// contract -> memory reachable from slice/pointer arguments only (assumption
// "external-frame", reported in evidence).
func (g *Gen) unknownCall(v ssa.Value, name string, sig *types.Signature, args []ssa.Value, st *State, fn *ssa.Function) *State {
	post := st
	if fn != nil && len(fn.Blocks) > 0 {
		e := g.prog.summary(g.u, fn)
		m := copySet(e.comps)
		if e.all {
			post = g.havocAll(st, "u")
		} else {
			m[TopKey] = true
			post = g.havocSet(st, m, "u")
			for i := range e.params {
				if i < len(args) {
					post = g.havocObject(post, args[i])
				}
			}
			if m[lockGhostKey(g.u, g.prog)] {
				g.assumeLockFrame(st, post, e.locks)
			}
		}
		g.uncontracted[displayName(fn)] = true
	} else {
		mods := map[string]bool{TopKey: true}
		for _, a := range args {
			g.argMods(a, mods)
		}
		post = g.havocSet(st, mods, "x")
		g.external[name] = true
	}
	// a dependency package that is modelled by ghost state (e.g. the sequence
	// model of container/list): a function of that package without a contract
	// may change the model arbitrarily
	if mg := g.prog.modelGhosts(g.u, fn); len(mg) > 0 {
		post = g.havocSet(post, mg, "mg")
	}
	res := g.havocResults(name, sig, post)
	if fn != nil {
		g.plainResults(res, sig, fn, "")
	}
	g.bindResults(v, res)
	return post
}

// argMods: components an external callee may write through argument a.
func (g *Gen) argMods(a ssa.Value, mods map[string]bool) {
	if pl := g.places[a]; pl != nil {
		g.placeMods(pl, mods)
		return
	}
	switch t := types.Unalias(a.Type()).Underlying().(type) {
	case *types.Slice:
		mods[g.u.ElemComp(t.Elem())] = true
	case *types.Pointer:
		et := t.Elem()
		switch x := types.Unalias(et).Underlying().(type) {
		case *types.Struct:
			g.structComps(et, mods)
		case *types.Array:
			mods[g.u.ElemComp(x.Elem())] = true
		default:
			mods[g.u.CellComp(et)] = true
		}
	case *types.Map:
		d, vv := g.u.MapComps(t)
		mods[d], mods[vv] = true, true
	}
}

// runDefers executes the deferred calls whose Defer dominates this point.
func (g *Gen) runDefers(x *ssa.RunDefers, st *State) *State {
	for i := len(g.defers) - 1; i >= 0; i-- {
		d := g.defers[i]
		if d.Block().Dominates(g.curBlock) {
			st = g.call(nil, d.Common(), st)
			continue
		}
		// conditional defer: it runs iff control passed through its block
		rd, ok := g.reach[d.Block()]
		if !ok {
			continue // defer in a block not reachable before this point
		}
		saved := g.reach[g.curBlock]
		g.reach[g.curBlock] = fmt.Sprintf("(and %s %s)", saved, rd)
		s1 := g.call(nil, d.Common(), st)
		g.reach[g.curBlock] = saved
		st = g.joinStates([]*State{s1, st}, []Term{fmt.Sprintf("(and %s %s)", saved, rd), fmt.Sprintf("(and %s (not %s))", saved, rd)})
	}
	return st
}

// instrMods: heap components instruction in may write (for loop havoc).
func (g *Gen) instrMods(in ssa.Instruction) (map[string]bool, bool) {
	mods := map[string]bool{}
	switch x := in.(type) {
	case *ssa.Store:
		g.storeMods(x.Addr, mods)
	case *ssa.MapUpdate:
		mt := types.Unalias(x.Map.Type()).Underlying().(*types.Map)
		d, v := g.u.MapComps(mt)
		mods[d], mods[v] = true, true
	case *ssa.Alloc, *ssa.MakeSlice, *ssa.MakeMap, *ssa.MakeInterface, *ssa.MakeChan:
		mods[TopKey] = true
		switch y := in.(type) {
		case *ssa.Alloc:
			g.typeComps(deref(y.Type()), mods)
		case *ssa.MakeSlice:
			mods[g.u.ElemComp(types.Unalias(y.Type()).Underlying().(*types.Slice).Elem())] = true
		case *ssa.MakeMap:
			d, v := g.u.MapComps(types.Unalias(y.Type()).Underlying().(*types.Map))
			mods[d], mods[v] = true, true
		case *ssa.MakeInterface:
			mods[g.u.BoxComp(y.X.Type())] = true
		}
	case *ssa.Convert:
		mods[TopKey] = true
		if st, ok := types.Unalias(x.Type()).Underlying().(*types.Slice); ok {
			mods[g.u.ElemComp(st.Elem())] = true
		}
	case ssa.CallInstruction:
		return g.prog.callMods(g.u, x.Common(), g.fn)
	case *ssa.Range:
		if mt, ok := types.Unalias(x.X.Type()).Underlying().(*types.Map); ok {
			mods[g.seenComp(x, g.u.SortOf(mt.Key()))] = true
		}
	case *ssa.Next:
		if r, ok := x.Iter.(*ssa.Range); ok {
			if mt, ok := types.Unalias(r.X.Type()).Underlying().(*types.Map); ok {
				mods[g.seenComp(r, g.u.SortOf(mt.Key()))] = true
			}
		}
	}
	return mods, false
}

func (g *Gen) typeComps(t types.Type, mods map[string]bool) {
	switch x := types.Unalias(t).Underlying().(type) {
	case *types.Struct:
		g.structComps(t, mods)
	case *types.Array:
		mods[g.u.ElemComp(x.Elem())] = true
	default:
		mods[g.u.CellComp(t)] = true
	}
}

func (g *Gen) storeMods(addr ssa.Value, mods map[string]bool) {
	storeModsU(g.u, addr, mods)
}
