package txrules

// Replay of FeeForSerializeSize obligations: evaluates the real function on
// the model's arguments and compares with the specification
// (rate*size/1000, rounded up to the rate when it would be zero, clamped).

import (
	"fmt"
	"math/big"
	"testing"

	"github.com/btcsuite/btcd/btcutil"
)

func TestGovcReplay(t *testing.T) {
	m := govcModel(t)
	rate := m.Int("p!relayFeePerKb", 1000)
	size := m.Int("p!txSerializeSize", 250)
	got := int64(FeeForSerializeSize(btcutil.Amount(rate), int(size)))
	want := new(big.Int).Mul(big.NewInt(rate), big.NewInt(size))
	want.Quo(want, big.NewInt(1000))
	if want.Sign() == 0 && rate > 0 {
		want.SetInt64(rate)
	}
	max := big.NewInt(int64(btcutil.MaxSatoshi))
	if want.Sign() < 0 || want.Cmp(max) > 0 {
		want.Set(max)
	}
	fmt.Printf("rate=%d size=%d: FeeForSerializeSize=%d specification=%s\n", rate, size, got, want)
	if big.NewInt(got).Cmp(want) != 0 {
		fmt.Println("REPLAY-VIOLATION fee differs from rate*size/1000 rule")
		return
	}
	fmt.Println("REPLAY-OK")
}
