package waddrmgr

// Replay (scenario style) for ChangePassphrase#post.new_pass_remembered_under_new_salt without its
// `len(newPassphrase) > 0` guard: on an UNLOCKED manager the private passphrase is changed to the
// EMPTY passphrase. append(passphraseSalt[:], newPassphrase...) then does not reallocate (len == cap
// == 32, nothing appended), so zero.Bytes(saltedPassphrase) wipes the fresh salt itself before it is
// stored in m.privPassphraseSalt, while hashedPrivPassphrase was computed under the un-wiped salt.
// "changing a passphrase makes the new one work ... immediately": Unlock with the new (empty)
// passphrase on the still unlocked manager must succeed.

import (
	"fmt"
	"testing"

	"github.com/btcsuite/btcwallet/walletdb"
)

func TestGovcReplay(t *testing.T) {
	m := govcModel(t)
	_ = m["$obligation"]
	tearDown, db, mgr := setupManager(t)
	defer tearDown()

	bad := 0
	err := walletdb.Update(db, func(tx walletdb.ReadWriteTx) error {
		ns := tx.ReadWriteBucket(waddrmgrNamespaceKey)
		if err := mgr.Unlock(ns, privPassphrase); err != nil {
			return err
		}
		// control: a non-empty new passphrase works immediately
		ctl := []byte("control-passphrase")
		if err := mgr.ChangePassphrase(ns, privPassphrase, ctl, true, fastScrypt); err != nil {
			return err
		}
		if err := mgr.Unlock(ns, ctl); err != nil {
			fmt.Println("control failed: Unlock with the new non-empty passphrase:", err)
			return err
		}
		// scenario: change to the empty passphrase while unlocked
		if err := mgr.ChangePassphrase(ns, ctl, []byte{}, true, fastScrypt); err != nil {
			fmt.Println("ChangePassphrase to the empty passphrase refused (no violation):", err)
			return nil
		}
		allZero := true
		for _, b := range mgr.privPassphraseSalt {
			if b != 0 {
				allZero = false
			}
		}
		if allZero {
			fmt.Println("after ChangePassphrase(new = empty): the stored passphrase salt is all-zero (wiped by zero.Bytes through the aliased append result)")
			bad++
		}
		if err := mgr.Unlock(ns, []byte{}); err != nil {
			fmt.Printf("unlocked manager: Unlock with the NEW (empty) passphrase fails right after the change: %v; locked now: %v\n", err, mgr.IsLocked())
			bad++
		}
		return nil
	})
	if err != nil {
		fmt.Println("setup failed:", err)
		return
	}
	if bad > 0 {
		fmt.Printf("REPLAY-VIOLATION ChangePassphrase: %d deviation(s)\n", bad)
	} else {
		fmt.Println("REPLAY-OK")
	}
}
